"""C10 - I/O faults are never silent: the runtime aborts with a diagnostic or leaves a complete valid trace; it never
returns normally after losing flushed events and never deletes the only complete copy of a stream.

proof (partial): Coq theorems about the rtfs model (coq/Rt/RtFsDefs.v: machine `run` with one failing call) for every
program, fault position, fault kind, readdir order and stdio buffer size; tied to the code by injecting the fault
into the real libovni under the LD_PRELOAD shim at EVERY call of small programs and comparing outcome and trees with
the model; an independent Python decider judges the implementation."""
import glob
import json
import os
import shutil

from vf import common, trace
from . import rtfs_lib as R
from . import c09 as C9

LEVEL = "proof"


def case_list(chk):
    quick = [
        [(5, 1, 1, 0, 0)],
        [(5, 2, 0, 0, 0), (6, 1, 1, 0, 0)],
        [(5, 1, 0, 4096, 1)],
    ]
    thorough = quick + [
        [(5, 0, 0, 0, 0)],
        [(5, 3, 1, 0, 0)],
        [(5, 3, 2, 0, 2), (6, 0, 0, 0, 0)],
        [(5, 1, 0, 8192, 1)],
        [(11, 1, 0, 0, 0), (12, 1, 1, 0, 0), (13, 2, 0, 0, 0)],
    ]
    progs = thorough if chk.tier == "thorough" else quick
    cases = []
    for mode in ("direct", "tmp"):
        for order in (("native", "sorted", "reverse") if mode == "tmp" else ("native",)):
            for th in progs:
                cases.append({"mode": mode, "order": order, "threads": [list(t) for t in th]})
    return cases


def corpus_cases():
    out = []
    for f in sorted(glob.glob(os.path.join(common.VERIF, "corpus", "C10", "*.json"))):
        j = json.load(open(f))
        c = j["case"]
        c["corpus"] = os.path.basename(f)
        out.append(c)
    return out


def faults_for(l, errnos):
    """fault kinds applicable to one logged call"""
    out = [{"n": l["n"], "errno": e, "name": name} for name, e in errnos]
    if l["kind"] in ("write", "fwrite", "pwrite", "sendfile", "copy_file_range") and l["size"] > 1:
        out.append({"n": l["n"], "errno": 28, "short": l["size"] // 2, "name": "short"})
        if l["size"] > 2:
            out.append({"n": l["n"], "errno": 28, "short": 1, "name": "short"})
    if l["kind"] in ("write", "pwrite", "sendfile", "copy_file_range") and l["size"] > 0:
        out.append({"n": l["n"], "errno": 28, "short": 0, "name": "short"})
    return out


def run(chk):
    chk.trusted_base = common.BASE_TRUST + [
        "hand model coq/Rt/RtFsDefs.v of ovni.c's file handling and of its reaction to a failing call (die / ignore / err and continue), "
        "tied per run by injecting one fault at every libc call of the real libovni (LD_PRELOAD shim harness/rtfs_shim.c, driver harness/rtfs_prog.c) "
        "and comparing outcome class and resulting trees with the model",
        "kernel/file-system semantics are assumptions: a failing call has no effect (a failing fclose loses the buffered bytes, a short write/fwrite transfers a prefix); "
        "errors reported late by the kernel (close() after a deferred write error, NFS) are not modelled",
        "glibc stdio buffering is an assumption (theorems hold for every buffer size); the shim fails calls at the libc API level, stdio-internal write() errors are represented by failing fwrite/fputs/fclose",
        "parson abstracted (json_serialize_to_file_pretty = fopen, fputs, fclose); emulator side as in C09; the real ovniemu is run on the recovered trace",
        "translate/units/rtfs.py: copy_thread_to_final, move_thdir_step, move_thdir_to_final, try_clean_dir and write_evbuf of src/rt/ovni.c are rendered on every run into coq/Gen/RtFs_gen.v as syntax trees (statements in C order, loops, break/continue, assignments in conditions, && / ||); their meaning is the hand-written interpreter coq/Rt/RtFsPre.v (a store for locals, every libc call a primitive that logs the RtFsDefs.op and takes its result from the environment: one injected fault, file contents in 1024-byte freads, readdir orders); coq/Proofs/RtFsGenProofs.v ties the calls, diagnostics and aborts of the interpreted code to RtFsDefs' instruction lists; clang's AST and the Python printer are trusted",
        "extraction (ExtrOcamlBasic only) + OCaml 4.13 + oracle/rtfs_drv.ml",
    ]
    chk.assumptions = ["exactly one failing call per run (the property's quantifier), everything else healthy",
                       "the trace directories do not exist before the run and nobody else writes into them",
                       "reading: 'a complete valid trace' = every stream of the program is complete (stream.json finished + stream.obs with every byte handed to write()) "
                       "in its final or in its temporary directory, and ovniemu accepts the streams taken from there"]
    chk.translate_and_prove(["rtfs"])

    build = common.repo_build("hook")
    tl = R.tools(build)
    oracle = None
    try:
        oracle = common.build_oracle("rtfs", "Extract_rtfs", "rtfs_drv.ml", "rtfs_x")
    except Exception as e:
        chk.notes.append("oracle unavailable: %r" % (e,))
        if not getattr(chk, "proof_broken", None):
            chk.proof_broken = {"kind": "extraction", "error": repr(e)[:500]}

    errnos = list(R.ERRNOS.items())
    corr_broken = []
    seen = set()
    cases = []
    for c in corpus_cases() + case_list(chk):
        if C9.ckey(c) not in seen:
            seen.add(C9.ckey(c))
            cases.append(c)
    wd = trace.workdir()
    nfault = 0
    variants = {}
    first = {}
    try:
        for ci, case in enumerate(cases):
            cd = os.path.join(wd, "c%d" % ci)
            ref = R.run_prog(tl, os.path.join(cd, "ref"), case)
            if ref["rc"] != 0:
                chk.violation("driver-failed:%s" % (case["mode"],), "the driver program fails on a healthy file system: rc=%s %s" % (ref["rc"], ref["err"][-300:]),
                              {"case": case}, found_input=True)
                continue
            # does ovniemu accept what this program leaves on a healthy file system? (a thread that never
            # flushes leaves a stream without events, which the emulator refuses whatever the file handling does)
            rfiles, rdirs = R.snapshot(os.path.join(cd, "ref"))
            healthy_ok = R.recovered_trace_ok(build, os.path.join(cd, "ref"), case, rfiles, R.flushed_from_log(ref["log"])) == 0
            chk.count("healthy-run-accepted:%s" % healthy_ok)
            variant, ords = None, None
            if oracle:
                variant, ords, detail = C9.pick_variant(oracle, case, ref)
                variants[str(variant)] = variants.get(str(variant), 0) + 1
                chk.case(("T", C9.ckey(case)))
                if variant is None:
                    corr_broken.append({"what": "call trace differs from the model", "case": case, "detail": detail})
                elif variant == "old":
                    corr_broken.append({"what": "call trace is the one of the unrepaired relocation (model variant Old, for which C10_single_fault is refuted)", "case": case})
            jobs = []
            for l in ref["log"]:
                for f in faults_for(l, errnos):
                    jobs.append((l, f))

            def inject(job, case=case, cd=cd, variant=variant, ords=ords, ref=ref, healthy_ok=healthy_ok):
                l, f = job
                d = os.path.join(cd, "f%d_%s_%s" % (f["n"], f["name"], f.get("short", f["errno"])))
                r = R.run_prog(tl, d, case, fault=f)
                files, dirs = R.snapshot(d)
                cls, bad = R.decide_c10(case, r, files)
                rec = None
                if cls == "returned" and not bad and healthy_ok:
                    rec = R.recovered_trace_ok(build, d, case, files, R.flushed_from_log(r["log"]))
                    if rec != 0:
                        bad.append(("invalid", 0, "the program returned normally but ovniemu rejects the streams it left (exit %s)" % (rec,)))
                model = None
                if oracle and variant:
                    fk = "short:%d" % f["short"] if "short" in f else "err"
                    q = "F %s %s %d %s %s %d %s" % (variant, case["mode"], R.BUFSZ, ords, R.model_threads(case, ref["log"], r["log"]), f["n"], fk)
                    model = R.parse_model_answer(common.batch(oracle, [q])[0])
                shutil.rmtree(d, ignore_errors=True)
                return l, f, r, files, dirs, cls, bad, model

            res = trace.pmap(inject, jobs)
            for l, f, r, files, dirs, cls, bad, model in res:
                nfault += 1
                fname = l["path"].rsplit("/", 1)[1] if "stream." in l["path"] else ("thread-dir" if "/thread." in l["path"] else "proc-dirs")
                where = "%s/%s" % ("tmp" if l["path"].startswith(R.TMP) else "final", fname)
                chk.case(("F", C9.ckey(case), f["n"], f["name"], f.get("short")))
                chk.count("fault:%s:%s" % (l["kind"], f["name"]))
                chk.count("outcome:%s" % cls)
                # one key per run: deleting the only complete copy is the primary finding, the loss follows from it
                if any(b[0] == "orphan-delete" for b in bad):
                    bad_keyed = [b for b in bad if b[0] == "orphan-delete"][:1]
                else:
                    bad_keyed = bad[:1]
                chk.count("violating-site:%s:%s" % (l["kind"], where), len(bad_keyed))
                for (kind, tid, text) in bad_keyed:
                    key = "%s:%s" % (kind, l["kind"])
                    if key not in first:
                        first[key] = 1
                        chk.violation(key, text + " [%s mode, readdir order %s, call %d (%s %s) failing with %s]"
                                      % (case["mode"], case["order"], f["n"], l["kind"], l["path"], "short count %d" % f["short"] if "short" in f else f["name"]),
                                      {"program": R.case_args(case), "mode": case["mode"], "readdir_order": case["order"], "fault_at": f["n"],
                                       "call": "%s %s" % (l["kind"], l["path"]), "fault": {k: v for k, v in f.items() if k != "n"},
                                       "exit": r["rc"], "stderr": r["err"][-600:], "tree": R.tree_lines(files, dirs), "model_variant_matched": variant,
                                       "theorem": "C10_single_fault_refuted_old (Proofs/RtFsProofs.v, section old)",
                                       "how": "harness/rtfs_prog.c under LD_PRELOAD=rtfs_shim.so with RTFS_FAULT_AT=%d RTFS_FAULT_ERRNO=%d%s RTFS_READDIR_ORDER=%s"
                                              % (f["n"], f["errno"], " RTFS_FAULT_SHORT=%d" % f["short"] if "short" in f else "", case["order"])})
                    else:
                        first[key] += 1
                if model is not None and len(model) == 4:
                    moc, morph, mtree = model[0], model[1], model[2].split(";") if model[2] else []
                    itree = R.tree_lines(files, dirs)
                    exp = {"aborted-with-diagnostic": "abort-diag", "aborted-silently": "abort-silent"}.get(cls)
                    if cls == "returned":
                        exp = "incomplete" if any(b[0] == "lost" for b in bad) else "complete"
                    if moc != exp:
                        corr_broken.append({"what": "outcome class differs: model %s, implementation %s" % (moc, cls), "case": case, "fault": f, "call": l["kind"] + " " + l["path"]})
                    elif sorted(mtree) != sorted(itree):
                        corr_broken.append({"what": "tree after the fault differs from the model", "case": case, "fault": f, "call": l["kind"] + " " + l["path"],
                                            "only_model": sorted(set(mtree) - set(itree))[:6], "only_impl": sorted(set(itree) - set(mtree))[:6]})
                    if (morph == "1") != any(b[0] == "orphan-delete" for b in bad):
                        corr_broken.append({"what": "orphan-delete differs: model %s" % morph, "case": case, "fault": f, "call": l["kind"] + " " + l["path"]})
                    if moc in ("incomplete", "abort-silent") and not bad:
                        corr_broken.append({"what": "the extracted Coq outcome is %s but the implementation decider is satisfied" % moc, "case": case, "fault": f})
                    if l["kind"] in ("fwrite", "mkdir", "close") and f["name"] == "ENOSPC":
                        chk.sample({"program": R.case_args(case), "mode": case["mode"], "order": case["order"], "fault_at": f["n"],
                                    "call": "%s %s" % (l["kind"], l["path"]), "exit": r["rc"], "stderr": r["err"][-160:], "class": cls,
                                    "model_outcome": moc, "tree": itree[:6]}, limit=5)
                elif model is not None:
                    corr_broken.append({"what": "oracle answered %r" % (model,), "case": case, "fault": f})
            shutil.rmtree(cd, ignore_errors=True)
    finally:
        shutil.rmtree(wd, ignore_errors=True)

    chk.coverage["fault_injections"] = nfault
    chk.coverage["model_variant_matched"] = variants
    chk.coverage["violating_injections"] = dict(first)
    chk.coverage["traces_validated_against_impl"] = len(cases)
    if corr_broken:
        chk.coverage["correspondence_disagreements"] = [json.dumps(x, default=str)[:400] for x in corr_broken[:10]]
        if not chk.violations and not chk.known_hits:
            chk.violation("broken-correspondence", "rtfs model and implementation disagree on %d points, none of which violates the property's spec" % len(corr_broken),
                          {"correspondence": "rtfs fault model vs libovni under the shim", "disagreements": [json.dumps(x, default=str)[:600] for x in corr_broken[:20]]},
                          found_input=False)
    chk.coverage["exhaustive"] = False
    chk.coverage["rule"] = ("programs: 1-3 threads x 0-3 ovni_flush x {direct, OVNI_TMPDIR} x readdir order {native, sorted, reverse}; for each, ONE fault at "
                            "EVERY intercepted libc call: ENOSPC, EIO, EACCES, ENOENT error returns, and short counts (half, 1, 0) for write/fwrite; "
                            "a case = (program, mode, order, call index, fault kind); all are distinct")
