"""Shared machinery of the rtfs engine (C09 crash consistency, C10 I/O faults).

A *case* is {"mode": "direct"|"tmp", "order": "native"|"sorted"|"reverse",
"threads": [(tid, nflush, nev, align, tail), ...], "conc": bool}.  The driver
(harness/rtfs_prog.c, real libovni of the check's build) is run under the
LD_PRELOAD shim (harness/rtfs_shim.c) in a scratch directory with relative
OVNI_TRACEDIR=rtfs_fin and (tmp mode) OVNI_TMPDIR=rtfs_tmp.
"""
import hashlib
import json
import os
import re
import shutil
import subprocess

from vf import common, trace

FIN = "rtfs_fin"
TMP = "rtfs_tmp"
PROC = "loom.L/proc.77"
BUFSZ = 4096          # glibc stdio buffer of a regular file here (st_blksize); validated by every kill run
ERRNOS = {"ENOSPC": 28, "EIO": 5, "EACCES": 13, "ENOENT": 2}


# ------------------------------------------------------------------ tools

class Tools:
    def __init__(self, build, prog, shim):
        self.build = build
        self.prog = prog
        self.shim = shim


def tools(build):
    hd = os.path.join(common.BUILD, "harness")
    os.makedirs(hd, exist_ok=True)
    prog = os.path.join(hd, "rtfs_prog-" + build.tree)
    src = os.path.join(common.VERIF, "harness", "rtfs_prog.c")
    shim_src = os.path.join(common.VERIF, "harness", "rtfs_shim.c")
    sig = hashlib.sha256(open(src, "rb").read()).hexdigest()[:10]
    prog = prog + "-" + sig
    if not os.path.exists(prog):
        for f in os.listdir(hd):
            if f.startswith("rtfs_prog-") and not f.startswith("rtfs_prog-" + build.tree):
                try:
                    os.remove(os.path.join(hd, f))
                except OSError:
                    pass
        tmp = prog + ".%d" % os.getpid()
        common.cc_harness(tmp, [src], build, extra=["-L" + build.libdir, "-lovni", "-Wl,-rpath," + build.libdir, "-lpthread"])
        os.replace(tmp, prog)
    ssig = hashlib.sha256(open(shim_src, "rb").read()).hexdigest()[:10]
    shim = os.path.join(hd, "rtfs_shim-%s.so" % ssig)
    if not os.path.exists(shim):
        tmp = shim + ".%d" % os.getpid()
        rc, o, e = common.run(["cc", "-std=gnu11", "-O1", "-g", "-w", "-shared", "-fPIC", "-o", tmp, shim_src, "-ldl", "-lpthread"])
        if rc != 0:
            raise RuntimeError("shim compile failed: " + e[-2000:])
        os.replace(tmp, shim)
    return Tools(build, prog, shim)


# ------------------------------------------------------------------ running

def canon(p):
    p = re.sub(r"/+", "/", p)
    if len(p) > 1 and p.endswith("/"):
        p = p[:-1]
    return p


def parse_log(path):
    out = []
    if not os.path.exists(path):
        return out
    for line in open(path, "rb").read().decode("latin1").split("\n"):
        f = line.split(" ")
        if len(f) != 7:
            continue
        out.append({"n": int(f[0]), "kind": f[1], "path": canon(f[2]), "size": int(f[3]), "res": int(f[4]),
                    "errno": int(f[5]), "data": bytes.fromhex(f[6]) if f[6] != "-" else b""})
    return out


def case_args(case):
    return ["pth" if case.get("conc") else "seq"] + ["%d:%d:%d:%d:%d" % tuple(list(t) + [0] * (5 - len(t))) for t in case["threads"]]


def run_prog(tl, wd, case, kill_at=None, fault=None, log=True, timeout=20):
    """fault: {"n": N, "errno": e} or {"n": N, "short": c, "errno": e}. Returns dict(rc, err, log)."""
    os.makedirs(wd, exist_ok=True)
    env = {k: v for k, v in os.environ.items() if not k.startswith("OVNI_") and not k.startswith("RTFS_")}
    env["OVNI_TRACEDIR"] = FIN
    if case["mode"] == "tmp":
        env["OVNI_TMPDIR"] = TMP
    env["LD_PRELOAD"] = tl.shim
    lp = os.path.join(wd, "shim.log")
    if log:
        env["RTFS_LOG"] = lp
    if case.get("order", "native") != "native":
        env["RTFS_READDIR_ORDER"] = case["order"]
    if kill_at is not None:
        env["RTFS_KILL_AT"] = str(kill_at)
    if fault is not None:
        env["RTFS_FAULT_AT"] = str(fault["n"])
        env["RTFS_FAULT_ERRNO"] = str(fault.get("errno", 28))
        if "short" in fault:
            env["RTFS_FAULT_SHORT"] = str(fault["short"])
    try:
        p = subprocess.run([tl.prog] + case_args(case), cwd=wd, env=env, stdout=subprocess.PIPE, stderr=subprocess.PIPE,
                           timeout=timeout)
        rc, err = p.returncode, p.stderr.decode(errors="replace")
    except subprocess.TimeoutExpired:
        rc, err = "timeout", ""
    return {"rc": rc, "err": err, "log": parse_log(lp)}


def snapshot(wd):
    """-> (files {relpath: bytes}, dirs set) below rtfs_fin / rtfs_tmp"""
    files, dirs = {}, set()
    for top in (FIN, TMP):
        root = os.path.join(wd, top)
        if not os.path.isdir(root):
            continue
        for d, dn, fn in os.walk(root):
            dirs.add(os.path.relpath(d, wd))
            for f in fn:
                p = os.path.join(d, f)
                files[os.path.relpath(p, wd)] = open(p, "rb").read()
    return files, dirs


def thread_dir(loc, tid):
    return "%s/%s/thread.%d" % (loc, PROC, tid)


def flushed_from_log(log):
    """bytes every thread has handed to write(), from the shim log (implementation side): the accepted part of
    every call (a short write is followed by a call for the rest); a call that failed counts in full - if the
    program goes on after it, those bytes are events it tried to flush"""
    fl = {}
    for l in log:
        if l["kind"] == "write":
            m = re.search(r"/thread\.(\d+)/stream\.obs$", l["path"])
            if m:
                tid = int(m.group(1))
                fl[tid] = fl.get(tid, b"") + (l["data"][:l["res"]] if l["res"] >= 0 else l["data"])
    return fl


def complete_events(data):
    """events fully contained in a byte string that starts with the stream header (trailing partial event dropped)"""
    if len(data) < 8:
        return []
    ok, evs, e = trace.parse_obs(data)
    return [data[x["off"]:x["off"] + x["size"]] for x in evs]


def json_state(data):
    """-> 'absent' | 'empty' | 'bad' | 'unfinished' | 'finished'"""
    if data is None:
        return "absent"
    if len(data) == 0:
        return "empty"
    try:
        j = json.loads(data.decode("utf-8"))
    except Exception:
        return "bad"
    try:
        return "finished" if j["ovni"].get("finished") == 1 else "unfinished"
    except Exception:
        return "bad"


def emu_verdict(build, wd, loc):
    """run the real ovniemu on a COPY of wd/loc (the emulator writes its output into the trace dir)"""
    src = os.path.join(wd, loc)
    if not os.path.isdir(src):
        return None, ""
    dst = os.path.join(wd, "emu_" + loc)
    shutil.rmtree(dst, ignore_errors=True)
    shutil.copytree(src, dst)
    rc, o, e = trace.run_tool(build, "ovniemu", [], dst)
    shutil.rmtree(dst, ignore_errors=True)
    return rc, e


# ------------------------------------------------------------------ independent deciders (implementation only)

def decide_c09(case, log, files, emu_rc):
    """C09 on what the implementation left behind after a kill.  emu_rc: {loc: exit status or None}.
    returns list of (sentence, loc, tid, text)"""
    fl = flushed_from_log(log)
    bad = []
    tids = [t[0] for t in case["threads"]]
    for loc in (FIN, TMP):
        if emu_rc.get(loc) != 0:
            continue
        for tid in tids:
            td = thread_dir(loc, tid)
            if td + "/stream.json" not in files:
                continue                       # not a stream for the emulator (trace.c: is_stream)
            need = complete_events(fl.get(tid, b""))
            have = complete_events(files.get(td + "/stream.obs", b""))
            if have[:len(need)] != need:
                bad.append(("s1", loc, tid, "ovniemu exits 0 on %s although stream thread.%d holds %d of the %d events flushed before the kill"
                            % (loc, tid, len(have), len(need))))
    for tid in tids:
        td = thread_dir(FIN, tid)
        if json_state(files.get(td + "/stream.json")) == "finished":
            obs = files.get(td + "/stream.obs")
            if obs is None or obs != fl.get(tid, b""):
                bad.append(("s2", FIN, tid, "thread.%d is marked finished in the final directory but its stream.obs there has %s of the %d flushed bytes"
                            % (tid, "no file" if obs is None else "%d" % len(obs), len(fl.get(tid, b"")))))
    return bad


def stream_complete_at(files, loc, tid, flushed):
    td = thread_dir(loc, tid)
    return json_state(files.get(td + "/stream.json")) == "finished" and files.get(td + "/stream.obs") == flushed


def decide_c10(case, res, files):
    """C10 on a run with one injected fault.  res: run_prog result.  returns (outcome class, list of (kind, tid, text))"""
    fl = flushed_from_log(res["log"])
    tids = [t[0] for t in case["threads"]]
    bad = []
    rc = res["rc"]
    if rc == 0:
        cls = "returned"
    elif rc == -6:
        cls = "aborted-with-diagnostic" if res["err"].strip() else "aborted-silently"
    else:
        cls = "other-%s" % (rc,)
    if cls == "aborted-silently" or cls.startswith("other"):
        bad.append(("abnormal", 0, "the run ended with status %s and %s diagnostic" % (rc, "a" if res["err"].strip() else "no")))
    # never delete the only complete copy: a successfully removed source needs a complete destination
    for l in res["log"]:
        if l["kind"] == "remove" and l["res"] == 0:
            m = re.match(r"%s/%s/thread\.(\d+)/(stream\.\w+)$" % (TMP, PROC), l["path"])
            if not m:
                continue
            tid, name = int(m.group(1)), m.group(2)
            dst = files.get(thread_dir(FIN, tid) + "/" + name)
            if name == "stream.obs":
                good = dst is not None and dst == fl.get(tid, b"")
            else:
                good = json_state(dst) == "finished"
            if not good:
                bad.append(("orphan-delete", tid, "%s of thread.%d was removed from the temporary directory while its copy in the final directory is %s"
                            % (name, tid, "missing" if dst is None else "incomplete (%d bytes)" % len(dst))))
    if cls == "returned":
        for tid in tids:
            f = fl.get(tid, b"")
            if not (stream_complete_at(files, FIN, tid, f) or stream_complete_at(files, TMP, tid, f)):
                bad.append(("lost", tid, "the program returned normally (exit 0, stderr %s) but neither the final nor the temporary directory holds a complete stream of thread.%d (%d flushed bytes)"
                            % ("empty" if not res["err"].strip() else "non-empty", tid, len(f))))
    return cls, bad


def recovered_trace_ok(build, wd, case, files, flushed):
    """returned normally: the streams taken from wherever they are complete must form a trace ovniemu accepts"""
    dst = os.path.join(wd, "recovered")
    shutil.rmtree(dst, ignore_errors=True)
    for t in case["threads"]:
        tid = t[0]
        for loc in (FIN, TMP):
            if stream_complete_at(files, loc, tid, flushed.get(tid, b"")):
                d = os.path.join(dst, PROC, "thread.%d" % tid)
                os.makedirs(d, exist_ok=True)
                for n in ("stream.obs", "stream.json"):
                    open(os.path.join(d, n), "wb").write(files[thread_dir(loc, tid) + "/" + n])
                break
        else:
            return None
    rc, o, e = trace.run_tool(build, "ovniemu", [], dst)
    shutil.rmtree(dst, ignore_errors=True)
    return rc


# ------------------------------------------------------------------ model side (oracle protocol)

def order_string(case, log):
    """enumeration order of a thread directory as the letters d(.) D(..) j o, one string per pass, from the LOG run"""
    per = []
    cur = None
    for l in log:
        if l["kind"] == "opendir":
            cur = ""
        elif l["kind"] == "readdir" and cur is not None:
            name = l["path"].rsplit("/", 1)[1]
            if name == "<end>":
                per.append(cur)
                cur = None
            else:
                cur += {".": "d", "..": "D", "stream.json": "j", "stream.obs": "o"}.get(name, "?")
    return per


FORCED = {"sorted": "dDjo", "reverse": "ojDd"}


def model_threads(case, ref_log, run_log=None):
    """thread descriptions for the oracle: tid/jsz0/jsz1/chunk,chunk,...   The sizes of the write() calls and of the
    metadata texts come from the reference LOG run of the same case (they are deterministic); the bytes are the ones
    this run really wrote (clocks differ between runs), zero-filled where this run did not get that far.  The
    8-byte stream header is the model's own first write and is not part of the chunks."""
    sizes, jsz = {}, {}
    for l in ref_log:
        m = re.search(r"/thread\.(\d+)/stream\.(obs|json)$", l["path"])
        if not m:
            continue
        tid = int(m.group(1))
        if l["kind"] == "write":
            sizes.setdefault(tid, []).append(l["size"])
        elif l["kind"] == "fputs":
            jsz.setdefault(tid, []).append(l["size"])
    real = {}
    for l in (run_log if run_log is not None else ref_log):
        m = re.search(r"/thread\.(\d+)/stream\.obs$", l["path"])
        if m and l["kind"] == "write" and l["res"] > 0:
            tid = int(m.group(1))
            real[tid] = real.get(tid, b"") + l["data"][:l["res"]]
    out = []
    for t in case["threads"]:
        tid = t[0]
        szs = sizes.get(tid, [8])
        data = real.get(tid, b"")
        total = sum(szs)
        data = data[:total] + bytes(max(0, total - len(data)))
        chunks, off = [], szs[0]
        for sz in szs[1:]:
            chunks.append(data[off:off + sz].hex() or "-")
            off += sz
        js = jsz.get(tid, []) + [2, 3]
        out.append("%d/%d/%d/%s" % (tid, js[0], js[1], ",".join(chunks) if chunks else "-"))
    return ";".join(out)


def md5(b):
    return hashlib.md5(b).hexdigest()


def tree_lines(files, dirs):
    """canonical description of an implementation tree, comparable with the oracle's"""
    out = []
    for d in sorted(dirs):
        out.append("D %s" % d)
    for p in sorted(files):
        b = files[p]
        if p.endswith("stream.json"):
            st = json_state(b)
            out.append("J %s %d %s" % (p, len(b), {"finished": "fin", "unfinished": "unfin", "empty": "empty"}.get(st, "bad")))
        else:
            out.append("F %s %d %s" % (p, len(b), md5(b)))
    return out


def parse_model_answer(ans):
    """oracle answers are ' | '-separated sections"""
    return [s.strip() for s in ans.split("|")]
