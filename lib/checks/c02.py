"""C02 - traces produced through correct API use are valid and accepted by the emulator."""
import os

from vf import common, trace
from checks import rtbuf_common as rb
from checks import rtmeta_lib

LEVEL = "proof"

KNOWN_ZONE_KEY = "nested-flush-markers:jumbo-total-in-cap-12..cap-1"


def emu_ready(c):
    evs = [o for o in c.ops if o.kind in "EJPOS"]
    return bool(evs) and evs[0].kind == "E" and evs[0].mcv == b"OHx" and any(o.kind == "E" and o.mcv == b"OHe" for o in evs)


def gen_state_change_at_flush(rng, cap, n):
    """conformant, emulator-ready programs in which the event that overflows the buffer (so that the library writes its
    OF[ OF] pair right after it) is a thread state change: the thread is paused / cooling / dead when the emulator
    sees the pair; the thread then goes on (or a new flush follows) so that a later flush is emulated as well"""
    import struct
    cases = []
    for i in range(n):
        r = rng.fork("s%d" % i)
        ops = [rb.Op("T", typ=1, value=1), rb.Op("T", typ=2, value=0),
               rb.E(b"OHx", struct.pack("<i", 0), struct.pack("<i", -1), struct.pack("<Q", 0))]
        used = 28
        rounds = r.range(1, 3)
        for _ in range(rounds):
            # fill so that the next 12-byte event does not fit: evlen + 12 >= cap
            room = cap - used
            want = r.choice([x for x in range(max(0, room - 12), room - 11 + 1) if x >= 0] or [0])
            fl = rb.fillers(r, want, emu_safe=True) if want in (0, 12) or want >= 14 else None
            if fl is None:
                fl = rb.fillers(r, 12, emu_safe=True) if room - 12 >= 12 else []
            ops += fl
            kind = r.choice(["p", "c", "p"])
            if kind == "p":
                ops += [rb.E(b"OHp"), rb.E(b"OUa"), rb.E(b"OHr")]
            else:
                ops += [rb.E(b"OHc"), rb.E(b"OHp"), rb.E(b"OHw"), rb.E(b"OHr")]
            ops.append(rb.F())
            used = 24
        ops += [rb.E(b"OUb"), rb.E(b"OHe"), rb.F(), rb.X()]
        ck = rb.sorted_clocks(r.fork("clk"), rb.clocks_needed(ops))
        cases.append(rb.Case(cap, ck, ops, "state-change-at-flush"))
    return cases


def run(chk):
    chk.trusted_base = common.BASE_TRUST + [
        "translator translate/c2gallina.py (clang JSON AST -> Gallina) for ovni_payload_size, ovni_ev_size and the constants, regenerated from the tree under test on every run",
        "translator unit translate/units/rtbuf.py (stage-C core _stagec.py + the wrappers listed in its header) for flush_evbuf, ovni_clock_now, ovni_ev_set_clock/get_clock/set_mcv, ovni_payload_add, add_flush_events, ovni_ev_add, ovni_ev_add_jumbo, ovni_flush, ovni_ev_emit, ovni_ev_jumbo_emit, ovni_mark_push/pop/set, regenerated on every run and proved equal to the hand model RtBufDefs (fx = true); hand-written underneath (coq/Rt/RtBufPre.v, Rt/RtBufApiDefs.v): write_evbuf = write all bytes or die, memcpy with bounds on evbuf / the payload union / read-only data with struct ovni_ev as source = CodecDefs.struct_bytes (packed, little endian), clock_monotonic_now = next clock input, die = abort, struct ovni_ev x = {0}, atomic_load(&rproc.st) = ST_READY, the caller programs api_call, ovni_thread_init/ovni_thread_free stand-ins",
        "hand model coq/Rt/RtBufDefs.v (repaired add_flush_events = patches/fix-c02-flush-markers.diff) tied by byte-for-byte comparison of stream.obs with the extracted model on generated conformant programs",
        "harness/rtbuf_drv.c (clock_gettime interposed; one forked child per program) and the OVNI_VERIF_EVBUF hook",
        "extraction (ExtrOcamlBasic only) + OCaml 4.13 + oracle/rtbuf_drv.ml",
        "hand model coq/Rt/RtMetaDefs.v of the runtime's metadata handling (parson's object API on dotted names + the stream.json state machine of src/rt/ovni.c), tied by comparing the tree of every stream.json after EVERY call (member order included), every returned attribute value and die() vs SIGABRT with the extracted model on generated metadata programs (harness/rtmeta_drv.c, oracle/rtmeta_drv.ml, lib/checks/rtmeta_lib.py)",
        "translator translate/units/rtmeta.py (stage-C core + the unit's wrappers) and the prelude coq/Rt/RtMetaPre.v (parson / libc primitives, rproc / rthread as state) for the metadata functions of src/rt/ovni.c regenerated into coq/Gen/RtMeta_gen.v on every run; set_thread_cpus (a counted loop) is accepted in one exact shape and rendered as an instance of the generic array_of_list_loop of RtMetaPre.v (key, member names, order, fields from the source; the meaning of the parson calls inside the loop is that primitive's); ovni_thread_init and ovni_proc_init are generated whole (their buffer / stream / directory calls are primitives outside the metadata state)",
        "parson's serialise-then-parse round trip (json_serialize_to_file_pretty / json_parse_file_with_comments) is trusted in C02_metadata_complete (m_parses = true); the tie reads the real text with Python's json",
        "per-loom completeness of ovni.loom_cpus, rank/nranks and the acceptance by the real emulator are NOT theorems: an independent Python decider judges the real final stream.json files and the real ovniemu -l runs on every generated protocol-following trace",
    ]
    chk.assumptions = ["a conformant program takes every event clock with ovni_clock_now() from a non-decreasing clock and emits no OF* events itself",
                       "one thread per stream; process init/fini as in the driver (C11 covers concurrency)"]
    ctx = rb.setup(chk)
    build = ctx.build
    rng = chk.rng
    quick = chk.tier == "quick"

    cases = []
    for fn, ln in rb.load_corpus("C02"):
        cases.append(rb.parse_line(ln))
    caps = [128] if quick else [128, 257, 512]
    for cap in caps:
        # emulator-ready conformant programs: every fill level x every next event
        cases += rb.gen_exhaustive(rng.fork("exh%d" % cap), cap, emu=True, seg_per_script=40)
    # the smallest capacity the hook allows, not emulator-ready (levels from the thread start included)
    cases += rb.gen_exhaustive(rng.fork("exh64"), 64, emu=False, seg_per_script=40, conformant=True)
    cases += rb.gen_random(rng.fork("rnd"), chk.budget(200, 3000), emu=True)
    cases += gen_state_change_at_flush(rng.fork("st"), 128, chk.budget(60, 600))
    small = [c for c in cases if c.cap is not None]
    big = [c for c in cases if c.cap is None]
    big += rb.gen_big(rng.fork("big"), chk.budget(20, 260), ctx.defcap, emu=True)
    for c in big:
        c.cap = None

    stats = {"variant_fixed": 0, "variant_both": 0, "variant_old": 0, "emu_runs": 0, "emu_ok": 0, "coq_decider_runs": 0,
             "auto_flush_pairs": 0, "emu_on_invalid": 0}
    corr_broken = []
    decider_disagree = []

    def prejudge(c, res):
        res["emu"] = None
        res["meta"] = rb.metadata_decide(rb.json_path(res["dir"])) if (res["impl_status"] == "ok" and res["dir"]) else None
        res["bad"] = rb.valid_decide(res["obs"]) if res["impl_status"] == "ok" else None
        # the emulator is only asked about streams the validator accepts (on garbage it may not
        # even terminate, which is C19's subject); an invalid stream is a violation by itself
        if res["impl_status"] == "ok" and emu_ready(c) and res["dir"]:
            if res["bad"] is not None:
                with rb.JUDGE_LOCK:
                    stats["emu_on_invalid"] += 1
                    go = stats["emu_on_invalid"] <= 4        # a few, for the replay file
                if not go:
                    return
            rc, out, err = trace.run_tool(ctx.art, "ovniemu", ["-l"], os.path.join(res["dir"], "ovni"), timeout=120 if res["bad"] is None else 10)
            res["emu"] = (rc, err[-1500:])

    def judge(c, res):
        capv = c.cap if c.cap is not None else ctx.defcap
        chk.case(c.fingerprint())
        chk.count(c.cls)
        ist = res["impl_status"]
        exp, _, why = rb.expected_status(c, capv)
        zone = [d for d in rb.near_cap_jumbo(c, capv) if d <= 12]
        replay = {"script": c.short(4000), "cap": capv, "impl_status": ist, "environment": res.get("environment"),
                  "how": "echo '<script>' | build/harness/rtbuf_drv-* <dir>; ovniemu -l <dir>/c0/ovni"}
        if exp != "ok":
            return  # not a conformant program (corpus may hold such lines); C01 judges those
        if ist != "ok":
            chk.violation("conformant-program-%s:%s" % (ist, c.fingerprint()), "conformant program ended with %s" % ist, replay)
            return
        bad = res["bad"]
        if res["obs"] is not None:
            stats["auto_flush_pairs"] += res["obs"].count(b"\x00OF]")
        if res["coq_valid"] is not None:
            stats["coq_decider_runs"] += 1
            if (res["coq_valid"] == "valid") != (bad is None):
                decider_disagree.append({"script": c.short(800), "python": bad, "coq": res["coq_valid"]})
        if bad:
            r2 = dict(replay)
            r2.update({"reason": bad[0], "detail": bad[1], "emulator": res.get("emu"), "theorem": "C02_valid_refuted (model of the code before the repair)",
                       "jumbo_room_left": zone})
            key = KNOWN_ZONE_KEY if (zone and bad[0] in ("clock-decreases", "flush-nested")) else "invalid-stream:%s:%s" % (bad[0], c.fingerprint())
            chk.violation(key, "a conformant program leaves an invalid stream: %s (%s)" % bad, r2)
        if res["meta"]:
            r2 = dict(replay)
            r2.update({"reason": res["meta"][0], "detail": res["meta"][1]})
            chk.violation("metadata:%s" % res["meta"][1][:60], "stream.json of a conformant program is incomplete: %s" % res["meta"][1], r2)
        if res.get("emu") is not None:
            stats["emu_runs"] += 1
            rc, err = res["emu"]
            if rc == 0:
                stats["emu_ok"] += 1
                if bad:
                    chk.notes.append("emulator accepted a stream the validator rejects: %s" % c.short(300))
            elif not bad:
                r2 = dict(replay)
                r2.update({"emulator_exit": rc, "emulator_stderr": err})
                chk.violation("emulator-rejects-valid-trace:%s" % c.fingerprint(), "ovniemu -l rejects (exit %s) the valid trace of a conformant program" % rc, r2)
        mm = rb.model_match(c, res)
        if mm == "both":
            stats["variant_both"] += 1
        elif mm == "fixed":
            stats["variant_fixed"] += 1
        elif mm == "old":
            stats["variant_old"] += 1
        elif mm is None:
            corr_broken.append({"script": c.short(1500), "impl": ist, "impl_len": len(res["obs"] or b""),
                                "model": res["m1"]["status"], "model_len": res["m1"].get("disk_len")})

    rb.run_all(ctx, small, judge, chunk=32, prejudge=prejudge, coq_valid=True)
    rb.run_all(ctx, big, judge, chunk=2, workers=12, prejudge=prejudge, coq_valid=True)

    # family rtmeta: the metadata side (stream.json) of the runtime against the model of coq/Rt/RtMetaDefs.v
    try:
        rtmeta_lib.run_family(chk, build, ctx.art, os.path.dirname(ctx.art.tool("ovniemu")))
    except Exception as e:  # noqa
        chk.notes.append("rtmeta family could not run: %r" % (e,))
        if not getattr(chk, "proof_broken", None):
            chk.proof_broken = {"kind": "correspondence-harness", "error": repr(e)[:500]}

    if small:
        s = small[len(small) // 3]
        chk.sample({"class": s.cls, "script": s.short(500)})
    if big:
        chk.sample({"class": big[-1].cls, "script": big[-1].short(500)})
    chk.coverage["model_match"] = {k: stats[k] for k in ("variant_fixed", "variant_both", "variant_old")}
    chk.coverage["tree_variant"] = "repaired add_flush_events" if stats["variant_old"] == 0 else "add_flush_events BEFORE the repair: the C02 theorems (model fx=true) do not describe this tree; C02_valid_refuted does"
    chk.coverage["emulator_runs"] = stats["emu_runs"]
    chk.coverage["emulator_accepted"] = stats["emu_ok"]
    chk.coverage["coq_valid_stream_decider_runs_on_impl_bytes"] = stats["coq_decider_runs"]
    chk.coverage["flush_pairs_seen_on_disk"] = stats["auto_flush_pairs"]
    if decider_disagree:
        chk.coverage["decider_disagreements"] = decider_disagree[:10]
        chk.violation("spec-deciders-disagree", "the extracted Coq valid_stream and the independent Python validator disagree on %d streams" % len(decider_disagree),
                      {"cases": decider_disagree[:10]}, found_input=False)
    if stats["variant_old"]:
        corr_broken.append({"note": "the implementation equals the model of the code before the repair on %d programs on which the two versions differ" % stats["variant_old"]})
    if corr_broken:
        chk.coverage["correspondence_disagreements"] = corr_broken[:10]
        if not chk.violations and not chk.known_hits:
            chk.violation("broken-correspondence", "model (repaired version) and implementation disagree on %d programs, none of which leaves an invalid stream" % len(corr_broken),
                          {"correspondence": "extracted RtBuf model vs libovni.so, stream.obs byte for byte", "disagreements": corr_broken[:20]},
                          found_input=False)
    chk.coverage["traces_validated_against_impl"] = len(small) + len(big)
    chk.coverage["exhaustive"] = False
    chk.coverage["rule"] = ("conformant programs only (sorted clock, OHx ... OHe, marks with stack discipline, flush, free): corpus/C02 first; hooked buffer %s: every reachable fill level x every next event "
                            "(payload 0,2..16; jumbo 0..cap-17 incl. the zone cap-24..cap-1; marks); cap 64 from the thread start; random programs over caps 64..4096 with near-capacity jumbos; "
                            "real capacity: parked 1..44 bytes below the boundary and near-capacity jumbos. Each stream judged by the Python validator and the extracted Coq valid_stream, "
                            "stream.json keys checked, real ovniemu -l run on every emulator-ready trace. distinct = distinct script text") % caps
