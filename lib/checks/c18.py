"""C18 - event catalogue: listed (ovnievents / evlist) = recognised by the handlers; ovnidump decodes listed events."""
import os
import re
import struct

from vf import common, emucheck, emucore, trace
from vf.emucore import Scenario, Jumbo, i32

LEVEL = "proof"

SIZES = {"u8": 1, "u16": 2, "u32": 4, "u64": 8, "i8": 1, "i16": 2, "i32": 4, "i64": 8}
PRINTABLE = [chr(x) for x in range(32, 127)]


def parse_sig(sig):
    """-> (mcv, jumbo, [(type, name)])  (independent of the Coq model: only used to build well-shaped payloads)"""
    m = re.match(r"^(...)(\+?)(?:\((.*)\))?$", sig, re.S)
    if not m:
        raise ValueError("cannot read signature %r" % sig)
    args = []
    if m.group(3):
        for a in m.group(3).split(","):
            ty, name = a.split()
            args.append((ty, name))
    return m.group(1), bool(m.group(2)), args


VALUES = {"cpu": 1, "taskid": 1, "typeid": 1, "bodyid": 0, "value": 1, "type": 0, "tid": 102, "label": b"t"}


def payload_of(sig, over=None):
    mcv, jumbo, args = parse_sig(sig)
    b = b""
    for ty, name in args:
        v = (over or {}).get(name, VALUES.get(name, 1))
        if ty == "str":
            b += (v if isinstance(v, bytes) else b"x") + b"\0"
        else:
            n = SIZES[ty]
            b += int(v).to_bytes(n, "little", signed=ty[0] == "i" and int(v) < 0)
    return Jumbo(b) if jumbo else b


def base(tables, model_name, two=False, marks=False):
    s = Scenario()
    for m in tables["models"]:
        s.versions[m["name"]] = m["version"]
    s.enabled = ["ovni"] + ([model_name] if model_name != "ovni" else [])
    s.looms["la"] = [(0, 0), (1, 1), (2, 2)]
    s.threads.append({"loom": "la", "pid": 10, "tid": 101})
    if two:
        s.threads.append({"loom": "la", "pid": 10, "tid": 102})
    if marks:
        s.marks[0] = [{"type": 0, "stack": True, "title": "m", "labels": []}, {"type": 1, "stack": False, "title": "s", "labels": []}]
    return s


def ohx(cpu=0, tid=101):
    return i32(cpu) + i32(tid) + struct.pack("<Q", 0)


class Cat:
    def __init__(self, tables):
        self.tables = tables
        self.name = {m["dir"]: m["name"] for m in tables["models"]}
        self.dir_of_id = {chr(m["id"]): m["dir"] for m in tables["models"]}
        self.sig = {}
        for e in tables["evdecl"]:
            self.sig[(e["model"], e["sig"][:3])] = e["sig"]
        self.tab = {}
        for t in tables["table"]:
            self.tab[(t["model"], chr(t["c"]), chr(t["v"]))] = t

    def listed(self, d, mcv):
        return (d, mcv) in self.sig

    def pl(self, d, mcv, over=None):
        return payload_of(self.sig[(d, mcv)], over) if (d, mcv) in self.sig else b""

    def contexts(self, d, mcv):
        """candidate (before, after, opts) contexts in which the listed event mcv of model d should be legal;
        before/after are lists of (thread, mcv, payload)"""
        P = lambda x, over=None: (0, x, self.pl(d, x, over))
        M = mcv[0]
        if d == "ovni":
            pre = [(0, "OHx", ohx())]
            c, v = mcv[1], mcv[2]
            if mcv == "OHx":
                return [([], [P("OHe")], {})]
            if mcv == "OHe":
                return [(pre, [], {"noend": True})]
            if mcv == "OHp":
                return [(pre, [P("OHr")], {})]
            if mcv == "OHr":
                return [(pre + [P("OHp")], [], {})]
            if mcv == "OHc":
                return [(pre, [], {})]
            if mcv == "OHw":
                return [(pre + [P("OHp")], [P("OHr")], {})]
            if mcv == "OAr":
                return [(pre + [(1, "OHx", ohx(1, 102))], [(1, "OHe", b"")], {"two": True, "over": {"cpu": 2}})]
            if mcv == "OF]":
                return [(pre + [P("OF[")], [], {})]
            if mcv == "OF[":
                return [(pre, [P("OF]")], {})]
            if c == "M":
                opts = {"marks": True}
                if v == "]":
                    return [(pre + [P("OM[")], [], opts)]
                if v == "=":
                    return [(pre, [], dict(opts, over={"type": 1}))]
                return [(pre, [], opts)]
            return [(pre, [], {})]
        pre = [(0, "OHx", ohx())]
        if d == "kernel":
            if mcv == "KCI":
                return [(pre + [P("KCO")], [], {})]
            if mcv == "KCO":
                return [(pre, [P("KCI")], {})]
        if d in ("nosv", "nanos6") and mcv[1] in "TY":
            Y, Tc, Tx, Te, Tp, Tr = (P(M + x) for x in ("Yc", "Tc", "Tx", "Te", "Tp", "Tr"))
            v = mcv[1:]
            if v == "Yc":
                return [(pre, [], {})]
            if v in ("Tc", "TC"):
                return [(pre + [Y], [], {})]
            if v == "Tx":
                return [(pre + [Y, Tc], [Te], {})]
            if v == "Te":
                return [(pre + [Y, Tc, Tx], [], {})]
            if v == "Tp":
                return [(pre + [Y, Tc, Tx], [Tr, Te], {})]
            if v == "Tr":
                return [(pre + [Y, Tc, Tx, Tp], [Te], {})]
        t = self.tab.get((d, mcv[1], mcv[2]))
        if t is None:
            return [(pre, [], {})]
        same = [x for x in self.tab.values() if x["model"] == d and x["chan"] == t["chan"]]
        code = lambda x: (0, M + chr(x["c"]) + chr(x["v"]), self.pl(d, M + chr(x["c"]) + chr(x["v"])))
        if t["action"] == "POP":
            pushes = [x for x in same if x["action"] == "PUSH" and x["value"] == t["value"]]
            return [(pre + [code(x)], [], {}) for x in pushes] or [(pre, [], {})]
        if t["action"] == "SET":
            others = [x for x in same if x["action"] == "SET" and x["value"] != t["value"]]
            return [(pre, [], {})] + [(pre + [code(x)], [], {}) for x in others[:3]]
        return [(pre, [], {})]

    def scenario(self, d, mcv, ctx, payload=None):
        before, after, opts = ctx
        s = base(self.tables, self.name[d], two=opts.get("two", False), marks=opts.get("marks", False))
        clk = 10
        evs = list(before) + [(0, mcv, self.pl(d, mcv, opts.get("over")) if payload is None else payload)] + list(after)
        probe_clk = None
        for i, (th, code, pl) in enumerate(evs):
            clk += 5
            if i == len(before):
                probe_clk = clk
            s.events.append((th, clk, code, pl))
        if not opts.get("noend") and mcv != "OHx" or (mcv == "OHx"):
            pass
        # close thread 0 unless the context already did
        state_end = [e for e in s.events if e[0] == 0 and e[2] == "OHe"]
        if not state_end:
            s.events.append((0, clk + 5, "OHe", b""))
        labels = set()
        for (th, clk_, code, pl) in s.events:
            if code[1:] == "Yc" and isinstance(pl, Jumbo):
                labels.add(emucore.task_label(int.from_bytes(pl[:4], "little"), bytes(pl[4:-1]).decode("latin1")))
        s.need_labels = labels
        s.probe = (probe_clk, mcv)
        return s


def refused_at_probe(s, r):
    m_ = re.search(r"rclock=(\d+)", r["stderr"])
    t0 = min(e[1] for e in s.events)
    return r["rc"] != 0 and m_ is not None and ("mcv=" + s.probe[1]) in r["stderr"]


def run(chk):
    build, oracle, tables = emucheck.setup(chk, extra_units=("guards", "chan", "sys", "taskev", "dispatch", "evspec"))
    chk.trusted_base.append('translate/units/evspec.py (renderer of translate/units/vparse.py, subclassed): ev_spec.c advance_out, print_arg, advance_in, parse_printf_format, parse_arg_name, ev_spec_find_arg, format_region, ev_spec_print and model.c model_event_print are rendered into coq/Gen/EvSpec_gen.v, EvSpecWalk_gen.v, EvSpecModel_gen.v on every run; memcpy of the eight integer types, memchr, snprintf for the formats in use (PRI* macros as on LP64 glibc), strcmp, isalnum, the type_fmt table and model_evspec_find are hand-written in coq/Tools/EvSpecPre.v, EvSpecWalkPre.v, EvSpecModelPre.v from the functions of coq/Tools/EvSpecDefs.v')
    chk.assumptions = [
        "listed = the evlist of each model as dumped from the compiled source (cross-checked on every run against the ovnievents tool)",
        "exceptions, as the property states them: the base model's B and U categories ignore the value byte; the legacy Nanos6 "
        "event 6TC is accepted with a warning and not listed",
        "an unlisted code is probed as a single event of a running thread with the model enabled; the emulator must refuse it at that event",
    ]
    # the ovnidump clause has a property file of its own
    if not getattr(chk, "proof_broken", None):
        res = common.check_property_file("C18d")
        chk.obligations += len(res["theorems"])
        chk.coverage["theorems"] = list(chk.coverage.get("theorems", [])) + res["theorems"]
        chk.coverage.setdefault("print_assumptions", {}).update(res["assumptions"])
        chk.coverage["axioms_used"] = sorted(set(chk.coverage.get("axioms_used", [])) | {a for v in res["assumptions"].values() if v for a in v})
        if res["ok"]:
            chk.discharged += len(res["theorems"])
        else:
            chk.proof_broken = {"kind": "proof-obligation", "file": "Props/Properties_C18d.v", "failure": res["failure"]}
    cat = Cat(tables)
    rng = chk.rng
    mids = {m["dir"]: chr(m["id"]) for m in tables["models"]}
    # ---- 1. the tool lists what the source declares
    rc, out, err = common.run([build.tool("ovnievents")], timeout=60)
    tool = set()
    cur = None
    for ln in out.split("\n"):
        m_ = re.match(r"^## Model (\S+)", ln)
        if m_:
            cur = m_.group(1)
        m_ = re.search(r"<pre>(.*)</pre>", ln)
        if m_ and cur:
            import html
            tool.add((cur, html.unescape(m_.group(1))))
    dumped = set((cat.name[e["model"]], e["sig"]) for e in tables["evdecl"])
    chk.case(("ovnievents", len(tool)))
    if rc != 0 or tool != dumped:
        diff = sorted(tool ^ dumped)[:6]
        chk.violation("ovnievents-differs", "ovnievents (exit %s) lists %d events, the models declare %d; differing: %s" % (rc, len(tool), len(dumped), diff),
                      {"only_in_tool": sorted(tool - dumped)[:20], "only_in_source": sorted(dumped - tool)[:20]})
    chk.count("listed_events", len(dumped))

    # ---- 2. every listed event is processed in a legal context
    listed_scs = []
    for e in tables["evdecl"]:
        d, mcv = e["model"], e["sig"][:3]
        for ci, ctx in enumerate(cat.contexts(d, mcv)):
            listed_scs.append((d, mcv, ci, cat.scenario(d, mcv, ctx)))
    need = sorted(set().union(*[s.need_labels for (_, _, _, s) in listed_scs]))
    gid = emucore.gids(build, need) if need else {}
    for (_, _, _, s) in listed_scs:
        s.gid = gid
    corr, real, model = emucheck.run_cases(chk, build, oracle, tables, [x[3] for x in listed_scs], label="listed", spec_verdict=False)
    by = {}
    for (d, mcv, ci, s), r in zip(listed_scs, real):
        by.setdefault((d, mcv), []).append((s, r))
    for (d, mcv), lst in sorted(by.items()):
        if mcv[:2] in ("OB", "OU") and d == "ovni":
            pass
        if not any(r["rc"] == 0 for (s, r) in lst):
            s, r = lst[0]
            chk.violation("listed-rejected:" + mcv, "listed event %s (model %s) is rejected in every context tried: %s" % (mcv, d, emucore._first_error(r["stderr"])),
                          {"scenario": s.describe(), "stderr": r["stderr"][:1500]})

    # ---- 3. unlisted codes are refused (sampled in quick, exhaustive in thorough)
    blind = {("ovni", "B"), ("ovni", "U")}
    legacy = {("nanos6", "6TC")}
    codes = []
    for d in sorted(mids):
        M = mids[d]
        cats_used = sorted(set(k[1][1] for k in cat.sig if k[0] == d) | set(k[1] for k in cat.tab if k[0] == d))
        if chk.tier == "thorough":
            for c in PRINTABLE:
                for v in PRINTABLE:
                    codes.append((d, M + c + v))
        else:
            for c in PRINTABLE:
                if c in cats_used:
                    for v in PRINTABLE:
                        codes.append((d, M + c + v))
                else:
                    for v in rng.fork("u" + d + c).shuffle(list(PRINTABLE))[:2]:
                        codes.append((d, M + c + v))
    unl = []
    for (d, mcv) in codes:
        if cat.listed(d, mcv):
            continue
        if (d, mcv[1]) in blind:
            kind = "blind"
        elif (d, mcv) in legacy:
            kind = "legacy"
        else:
            kind = "unlisted"
        r_ = rng.fork("p" + d + mcv)
        pl = b"" if r_.chance(2, 3) else r_.choice([i32(1), i32(1) + i32(1), bytes(12)])
        opts = {"marks": True} if (d == "ovni" and mcv[1] == "M") else {}
        s = cat.scenario(d, mcv, ([(0, "OHx", ohx())], [], opts), payload=pl)
        s.gid = {}
        unl.append((d, mcv, kind, s))
        # ... and dressed as each listed event of its category that takes arguments (same payload shape, jumbo
        # included): a handler that looks at the payload or the jumbo flag before the value byte must still refuse it
        if kind == "unlisted":
            shapes = []
            for (d2, m2), sig in sorted(cat.sig.items()):
                if d2 == d and m2[:2] == mcv[:2]:
                    sp = payload_of(sig)
                    if len(sp) and not any(type(sp) is type(x) and bytes(sp) == bytes(x) for x in shapes):
                        shapes.append(sp)
            for k, sp in enumerate(shapes):
                s2 = cat.scenario(d, mcv, ([(0, "OHx", ohx())], [], opts), payload=sp)
                s2.gid = {}
                s2.need_labels = set()
                unl.append((d, mcv, kind, s2))
                chk.count("probe:unlisted-dressed-as-listed-sibling" + (":jumbo" if isinstance(sp, Jumbo) else ""))
    chunk = 4000
    msgs = {}
    for i in range(0, len(unl), chunk):
        part = unl[i:i + chunk]
        c2, real2, model2 = emucheck.run_cases(chk, build, oracle, tables, [x[3] for x in part], label="unlisted", spec_verdict=False)
        corr += c2
        for (d, mcv, kind, s), r in zip(part, real2):
            chk.count("probe:" + kind)
            if kind == "unlisted":
                if r["rc"] == 0:
                    chk.violation("unlisted-accepted:" + mcv, "event %s is not listed for model %s but ovniemu processes it" % (mcv, d), {"scenario": s.describe()})
                elif not refused_at_probe(s, r):
                    chk.violation("unlisted-not-refused-at-event:" + mcv, "ovniemu fails on the trace with unlisted event %s but not at that event: %s" % (mcv, emucore._first_error(r["stderr"])),
                                  {"scenario": s.describe(), "stderr": r["stderr"][:1500]})
                else:
                    why = "unknown" if re.search(r"unknown|unexpected|cannot find|unhandled", r["stderr"]) else "other"
                    msgs[why] = msgs.get(why, 0) + 1
            else:
                if r["rc"] != 0:
                    chk.violation("exception-rejected:" + mcv, "event %s (%s) should be accepted: %s" % (mcv, kind, emucore._first_error(r["stderr"])),
                                  {"scenario": s.describe(), "stderr": r["stderr"][:1500]})
    chk.coverage["unlisted_refusal_messages"] = msgs
    chk.coverage["domain"] = ("thorough: all %d codes (8 models x 95 x 95 printable bytes)" % (8 * 95 * 95)) if chk.tier == "thorough" else \
        "quick: every value byte of every category a model lists or handles, two random value bytes of every other category, every listed event"

    # ---- 4. ovnidump decodes every listed event (engine of its own)
    from checks import c18_dump
    # neighbours: events of different models that share the category and value bytes, dumped next to each other in
    # both orders (a listed one must keep its own description, an unlisted one must stay UNKNOWN)
    by_cv = {}
    for e in tables["evdecl"]:
        by_cv.setdefault(e["sig"][1:3], []).append(e)
    seqs = []
    for cv, lst in sorted(by_cv.items()):
        for e in lst:
            others = [o for o in lst if o["model"] != e["model"]]
            ghosts = [mids[d] + cv for d in sorted(mids) if d != e["model"] and not cat.listed(d, mids[d] + cv)
                      and not (d == "ovni" and cv[0] in "BU")]
            r_ = rng.fork("adj" + e["sig"][:3])
            for o in others[:2]:
                seqs.append([("L", e), ("L", o), ("L", e)])
            for g in r_.shuffle(ghosts)[:chk.budget(1, 4)]:
                seqs.append([("L", e), ("U", g), ("L", e)])
    flat = []
    for sq in seqs:
        for kind, x in sq:
            if kind == "L":
                pl = payload_of(x["sig"])
                flat.append({"mcv": x["sig"][:3], "payload": b"" if isinstance(pl, Jumbo) else pl, "jumbo": bytes(pl) if isinstance(pl, Jumbo) else None,
                             "kind": "L", "decl": x})
            else:
                flat.append({"mcv": x, "payload": b"", "jumbo": None, "kind": "U"})
    CHN = 240      # multiple of 3: sequences are never split
    chunks = [flat[i:i + CHN] for i in range(0, len(flat), CHN)]
    res = trace.pmap(lambda ch: c18_dump.run_chunk(build, ch), chunks)
    nadj = 0
    for ch, rr in zip(chunks, res):
        if isinstance(rr, str):
            chk.violation("dump-neighbours-fails", "ovnidump fails on a loadable stream of listed and unlisted events: %s" % rr[:300],
                          {"events": [c["mcv"] for c in ch][:60]})
            continue
        for i, (c, text) in enumerate(zip(ch, rr)):
            nadj += 1
            chk.case(("adj", c["mcv"], ch[i - 1]["mcv"] if i % 3 else None))
            prev = ch[i - 1]["mcv"] if i % 3 else None
            if c["kind"] == "U":
                if text != b"UNKNOWN":
                    chk.violation("dump-describes-unlisted:" + c["mcv"], "ovnidump prints a description for %s, which no model lists, right after %s: %r" % (c["mcv"], prev, text[:120]),
                                  {"events": [prev, c["mcv"]], "how": "one stream with these two events (no payload for the second), run ovnidump"})
            else:
                d = c["decl"]
                mcv_, isj, args = c18_dump.py_sig(d["sig"])
                vals = [VALUES.get(n, 1) if t != "str" else (VALUES.get(n, b"x") if isinstance(VALUES.get(n, b"x"), bytes) else b"x") for (t, n) in args]
                want, _ = c18_dump.py_text(d["desc"], args, vals)
                if text != want:
                    chk.violation("dump-neighbour-text:" + c["mcv"], "ovnidump describes %s as %r right after %s; its description with the values substituted is %r" % (
                        c["mcv"], text[:160], prev, want[:160]), {"events": [prev, c["mcv"]], "payload_hex": (c["jumbo"] if c["jumbo"] is not None else c["payload"]).hex()})
    chk.count("dump:neighbour-events", nadj)
    if True:
        dres = c18_dump.run_dump(chk, build, tables)
        chk.coverage["ovnidump_clause"] = dres["counts"]
        for dsc in dres["disagreements"]:
            corr.append(({"ovnidump": dsc.get("event") or dsc.get("signature") or dsc["kind"]}, "%s: %s" % (dsc["kind"], repr(dsc)[:400])))
    emucheck.finish_corr(chk, corr)
