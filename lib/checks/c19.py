"""C19 - tools are total: any trace bytes give a clean exit, never a crash or hang.

proof (partial): theorems for the stream layer / event-size decoder / ovnisort walks
(coq/Props/Properties_C19.v); the handlers, print_arg, parson and the rest are covered only by the
sanitizer campaign below (support, not proof)."""
import json
import os
import shutil
import struct

from vf import common, trace
from checks import loader_common as L

LEVEL = "proof"

HDR = L.HDR

JUMBO_SIZES = [0, 1, 2, 3, 4, 5, 8, 12, 16, 255, 256, 65535, 0x7FFFFFEF, 0x7FFFFFF0, 0x7FFFFFF1, 0x7FFFFFFB, 0x7FFFFFFC,
               0x7FFFFFFF, 0x80000000, 0xFFFFFFDF, 0xFFFFFFE0, 0xFFFFFFE4, 0xFFFFFFEF, 0xFFFFFFF0, 0xFFFFFFF1, 0xFFFFFFF3,
               0xFFFFFFF4, 0xFFFFFFF8, 0xFFFFFFFB, 0xFFFFFFFC, 0xFFFFFFFF]
FLAGS = [0x00, 0x01, 0x02, 0x03, 0x07, 0x0B, 0x0F, 0x10, 0x11, 0x13, 0x1F, 0x20, 0x33, 0x80, 0x90, 0xF0, 0xFF]


# ---------------------------------------------------------------- structure-aware mutation of stream.obs

def ev_offsets(obs):
    ok, evs, why = trace.parse_obs(obs)
    return evs


def mutate_obs(rng, obs, n):
    """n mutants of a valid stream.obs: (class, bytes)"""
    evs = ev_offsets(obs)
    out = []
    for _ in range(n):
        b = bytearray(obs)
        k = rng.below(13)
        e = rng.choice(evs) if evs else None
        if k == 0 and e:
            b[e["off"]] = rng.choice(FLAGS)
            out.append(("flags", bytes(b)))
        elif k == 1 and e:
            # make it jumbo with a chosen size field (the field overlays the first payload bytes or the next event)
            b[e["off"]] = 0x10 | (b[e["off"]] & 0xEF)
            sz = rng.choice(JUMBO_SIZES)
            b[e["off"] + 12:e["off"] + 16] = struct.pack("<I", sz)
            out.append(("jumbo-size", bytes(b)))
        elif k == 2 and e:
            # exact / off-by-one jumbo sizes relative to the end of the file
            rest = len(b) - (e["off"] + 16)
            b[e["off"]] = 0x13
            sz = max(0, rest + rng.choice([-2, -1, 0, 1, 2]))
            b[e["off"] + 12:e["off"] + 16] = struct.pack("<I", sz & 0xFFFFFFFF)
            out.append(("jumbo-exact", bytes(b)))
        elif k == 3:
            cut = rng.below(len(b) + 1)
            out.append(("truncate", bytes(b[:cut])))
        elif k == 4 and e:
            # insert a jumbo header with a hostile size before/after an event or at the tail
            pos = rng.choice([e["off"], e["off"] + e["size"], len(b)])
            ins = struct.pack("<B3sQ", 0x10 | rng.below(16), rng.choice([b"OB.", b"VYc", b"OHx", b"OU["]), e["clock"]) + \
                struct.pack("<I", rng.choice(JUMBO_SIZES))
            out.append(("insert-jumbo", bytes(b[:pos]) + ins + bytes(b[pos:])))
        elif k == 5 and e:
            # a jumbo header cut inside its size field at the very end of the file
            tail = struct.pack("<B3sQ", 0x13, b"OB.", e["clock"]) + struct.pack("<I", rng.choice(JUMBO_SIZES))
            out.append(("tail-jumbo", bytes(b) + tail[:rng.range(1, 16)]))
        elif k == 6 and e:
            c = rng.choice([0, 1, e["clock"] - 1, (1 << 63) - 1, 1 << 63, (1 << 64) - 1, e["clock"] + (1 << 40)])
            b[e["off"] + 4:e["off"] + 12] = struct.pack("<Q", c & 0xFFFFFFFFFFFFFFFF)
            out.append(("clock", bytes(b)))
        elif k == 7:
            i = rng.below(min(len(b), 8))
            b[i] = rng.below(256)
            out.append(("header", bytes(b)))
        elif k == 8 and e:
            # payload shape: shrink or grow the nibble, keeping the bytes
            nib = rng.below(16)
            b[e["off"]] = (b[e["off"]] & 0xE0) | nib
            out.append(("nibble", bytes(b)))
        elif k == 9:
            for _j in range(rng.range(1, 3)):
                i = rng.below(len(b))
                b[i] = rng.below(256)
            out.append(("flip", bytes(b)))
        elif k == 10 and e:
            # drop bytes from the middle of an event
            a = e["off"] + rng.below(e["size"])
            z = min(len(b), a + rng.range(1, 6))
            out.append(("cut-middle", bytes(b[:a]) + bytes(b[z:])))
        elif k == 11 and any(x["jumbo"] is not None for x in evs):
            e = rng.choice([x for x in evs if x["jumbo"] is not None])
            # jumbo payload without NUL / too short for the handler
            js = rng.choice([0, 1, 3, 4, 5])
            ne = struct.pack("<B3sQ", 0x13, e["mcv"].encode("latin1"), e["clock"]) + struct.pack("<I", js) + b"\xff" * js
            out.append(("jumbo-short", bytes(b[:e["off"]]) + ne + bytes(b[e["off"] + e["size"]:])))
        else:
            ln = rng.below(40)
            out.append(("random-tail", HDR + bytes(rng.below(256) for _ in range(ln))))
    return out


def every_truncation(obs):
    return [("truncate", obs[:i]) for i in range(len(obs) + 1)]


# ---------------------------------------------------------------- mutation of stream.json

def _set(d, path, v):
    parts = path.split(".")
    for p in parts[:-1]:
        d = d.setdefault(p, {})
    if v is _DEL:
        d.pop(parts[-1], None)
    else:
        d[parts[-1]] = v


_DEL = object()
JSON_PATHS = ["version", "ovni", "ovni.lib", "ovni.lib.version", "ovni.lib.commit", "ovni.part", "ovni.tid", "ovni.pid",
              "ovni.loom", "ovni.app_id", "ovni.require", "ovni.require.ovni", "ovni.require.nosv", "ovni.loom_cpus",
              "ovni.finished", "ovni.rank", "ovni.nranks", "ovni.mark", "ovni.mark.1", "ovni.mark.1.title",
              "ovni.mark.1.chan_type", "ovni.mark.2.labels", "ovni.mark.2.labels.3", "nosv", "nosv.can_breakdown"]
JSON_VALUES = [_DEL, None, True, False, 0, 1, -1, 3, 2.5, 1e300, -1e300, 2 ** 31, 2 ** 31 - 1, -2 ** 31 - 1, 2 ** 53, 2 ** 63, 2 ** 64,
               "", "x", "thread", "1.0.0", "99999999999999999999.1.0", "a/b", "x" * 5000, [], [1], [{}], [[]], {}, {"x": 1},
               [{"index": -1, "phyid": 0}], [{"index": 0}], [{"index": 1e300, "phyid": -1e300}], [{"index": 0, "phyid": 0}, {"index": 0, "phyid": 1}],
               [{"index": "0", "phyid": None}], {"0": 1}]


def mutate_json(rng, meta, n):
    out = []
    for _ in range(n):
        k = rng.below(10)
        if k < 7:
            m = json.loads(json.dumps(meta))
            path = rng.choice(JSON_PATHS)
            v = rng.choice(JSON_VALUES)
            try:
                _set(m, path, v)
            except (AttributeError, TypeError):
                m = {"version": 3, "ovni": v if v is not _DEL else 1}
            try:
                txt = json.dumps(m).encode()
            except (TypeError, ValueError):
                txt = b"{}"
            out.append(("json-type:%s" % path, txt))
        elif k == 7:
            txt = json.dumps(meta).encode()
            cut = rng.below(len(txt) + 1)
            out.append(("json-truncate", txt[:cut]))
        elif k == 8:
            txt = bytearray(json.dumps(meta).encode())
            for _j in range(rng.range(1, 3)):
                txt[rng.below(len(txt))] = rng.choice(b'{}[]",:0e-x\x00\xff ')
            out.append(("json-flip", bytes(txt)))
        else:
            out.append(("json-odd", rng.choice([b"", b"null", b"3", b"[]", b"\"x\"", b"{", b"{}", b"{\"version\":3}",
                                                 b"{\"version\":3,\"ovni\":[]}", b"[" * 3000, b"{\"a\":" * 3000,
                                                 b"{\"version\":3,\"ovni\":{\"part\":\"thread\"}}",
                                                 b"\xff\xfe{}", b"// c\n{\"version\": 3}", b"{\"version\":1e999}"])))
    return out


# ---------------------------------------------------------------- every declared event with hostile payload shapes

TYPE_SIZE = {"u8": 1, "i8": 1, "u16": 2, "i16": 2, "u32": 4, "i32": 4, "u64": 8, "i64": 8, "str": 0}


def declared_events(build):
    """[(mcv, is_jumbo, [arg types])] parsed from the tree's own `ovnievents` listing"""
    import re
    rc, out, err = common.run([build.tool("ovnievents")])
    res = []
    for sig in re.findall(r"<pre>([^<]+)</pre>", out):
        sig = sig.replace("&lt;", "<").replace("&gt;", ">").replace("&amp;", "&").replace("&quot;", '"')
        m = re.match(r"^(...)(\+?)(?:\((.*)\))?$", sig, re.S)
        if not m:
            continue
        args = [a.strip().split(" ")[0] for a in m.group(3).split(",")] if m.group(3) else []
        res.append((m.group(1), m.group(2) == "+", args))
    return res


def shapes_of(rng, mcv, is_jumbo, args):
    """event encodings of a declared event with right and wrong payload shapes: (class, bytes)"""
    P = sum(TYPE_SIZE.get(a, 4) for a in args)
    out = []
    m = mcv.encode("latin1")

    def plain(n, fill=1):
        if n == 0:
            return struct.pack("<B3sQ", 0, m, 2000)
        body = bytes([fill]) + b"\0" * (n - 1) if fill else b"\xff" * n
        return struct.pack("<B3sQ", n - 1, m, 2000) + body

    def jumbo(data, declared=None):
        return struct.pack("<B3sQ", 0x13, m, 2000) + struct.pack("<I", len(data) if declared is None else declared) + data

    sizes = {0, 2, 16, P if 2 <= P <= 16 else 4}
    if 3 <= P <= 16:
        sizes.add(P - 1)
    if 2 <= P + 1 <= 16:
        sizes.add(P + 1)
    for n in sorted(sizes):
        out.append(("plain%d%s" % (n, "=" if n == P else ""), plain(n)))
    out.append(("plain-ff", plain(max(2, min(16, P or 4)), fill=0)))
    fixed = b"".join((b"\1" + b"\0" * (TYPE_SIZE[a] - 1)) for a in args if TYPE_SIZE.get(a))
    out.append(("jumbo0", jumbo(b"")))
    out.append(("jumbo3", jumbo(b"\1\0\0")))
    out.append(("jumbo-fixed", jumbo(fixed)))
    out.append(("jumbo-nonul", jumbo(fixed + b"AAAAAAA")))
    out.append(("jumbo-ok", jumbo(fixed + b"label\0")))
    out.append(("jumbo-long", jumbo(fixed + b"L" * 3000 + b"\0")))
    if "str" in args:
        # texts that end just past ovnidump's 1024-byte formatting buffer (a stray write a few bytes beyond it
        # lands in the sanitizer's red zone; one thousands of bytes beyond would not)
        for n in range(960, 1120, 6):
            out.append(("jumbo-edge", jumbo(fixed + b"E" * n + b"\0")))
    return out


# ---------------------------------------------------------------- the check

def run(chk):
    chk.trusted_base = common.BASE_TRUST + [
        "translate/units/footprint.py + _stagec.py (havoc mode): the handlers of ovni/event.c, ovni/mark.c and the pre_task chains and pre_type of nosv/event.c and nanos6/event.c are rendered into coq/Gen/Foot_gen.v on every run with explicit bounds-checked payload reads, and the dispatch code of the other seven models (model_<m>_event, process_ev, simple, context_switch of nosv, nanos6, nodes, mpi, tampi, openmp, kernel /event.c) into coq/Gen/FootAll_gen.v, where the static tables ss_table / fn_table are arbitrary rows (FootPre.opq_row); everything but the event is an arbitrary oracle (coq/Emu/FootPre.v); the translator checks that untranslated callees can only receive the event if they never mention `payload`; in pre_type a pointer into the payload is a byte offset, memcpy/memchr are explicit bounds-checked reads and the label handed to the untranslated task_type_create is assumed to be read as a C string only (a NUL inside the payload is then required and proved); clang's AST and the Python printer are trusted",
        "translator translate/c2gallina.py (clang JSON AST -> Gallina) for ovni_ev_size, ovni_payload_size, get_jumbo_payload_size (unit loader) and next_ev_size (unit loader_step); struct layout and constants evaluated by the compiler; validated each run against the compiled C (harness/loader_h.c Z lines)",
        "hand model of stream.c load_obs/check_stream_header/stream_step (coq/Emu/StreamDefs.v) validated each run against the real stream.c in process (harness/loader_h.c, guard pages on both sides of the buffer) and through ovnidump/ovniemu",
        "hand-written read footprints of the translated functions, proved sound against the translation (C19_footprint_*)",
        "extraction (ExtrOcamlBasic only) + OCaml 4.13 + oracle/loader_drv.ml",
        "AddressSanitizer/UBSan of gcc and the OVNI_VERIF_HEAPBUF hook for the support campaign",
        "not covered by a theorem (sanitizer campaign only): ev_spec.c print_arg, ovnidump's printing, parson, the rest of the emulator and of ovnisort (the payload reads of the event handlers of all eight models and of mark_event are covered by C19_all_handlers_read_in_bounds_partial)",
    ]
    chk.assumptions = ["stream->clock_offset = 0 (no clock offset table in the trace directory)",
                       "a stream file is smaller than 2^63 bytes",
                       "theorems are about the repaired stream_step (patches/fix-c19-stream-bounds.diff); on a tree without it the translator unit loader_step fails closed"]
    broken = common.translate(["loader", "loader_step", "footprint", "stepper"])
    fixed_tree = not any("unit=loader_step" in b for b in broken)
    if broken:
        chk.proof_broken = {"kind": "translator", "messages": broken}
        chk.notes.append("translator refused the current source: " + "; ".join(broken))
        chk.obligations = len(common.property_theorems(chk.prop))
        chk.discharged = 0
    else:
        chk.prove()
    which = "new" if fixed_tree else "old"
    chk.coverage["stream_step_model"] = "repaired (next_ev_size present)" if fixed_tree else "as found (no next_ev_size in stream.c)"

    build = common.repo_build("hook")
    asan = common.repo_build("asan")
    hx = L.loader_harness(build)
    oracle = None
    try:
        oracle = L.loader_oracle()
    except Exception as e:
        chk.notes.append("oracle unavailable: %r" % (e,))
        if not getattr(chk, "proof_broken", None):
            chk.proof_broken = {"kind": "extraction", "error": repr(e)[:500]}
    models = L.models_of(build)
    rng = chk.rng
    corr_broken = []

    # ---- A: byte strings through the real stream.c (in process) and the model
    cases = []   # (class, bytes)
    corpus_obs = []
    for name, d in L.load_corpus("C19"):
        for r, dn, fn in os.walk(d):
            for f in fn:
                if f == "stream.obs":
                    corpus_obs.append(("corpus:" + name, open(os.path.join(r, f), "rb").read()))
    cases += corpus_obs
    nbase = chk.budget(90, 500)
    for k in range(nbase):
        r = rng.fork("A%d" % k)
        th = L.gen_trace(r, models, small=(k % 3 == 0))
        obs = L.obs_of(th[0])
        cases.append(("valid", obs))
        if len(obs) <= 160 and k % 3 == 0:
            cases += every_truncation(obs)
        cases += mutate_obs(r, obs, chk.budget(50, 120))
    # boundary family: one jumbo event with each hostile size field, alone / after an event / before an event
    plain = struct.pack("<B3sQ", 0, b"OB.", 5)
    for sz in JUMBO_SIZES:
        j = struct.pack("<B3sQ", 0x13, b"OB.", 10) + struct.pack("<I", sz)
        for pre in (b"", plain):
            for post in (b"", plain, b"\0" * 3, b"\0" * min(sz, 40)):
                cases.append(("boundary", HDR + pre + j + post))
    seen = set()
    uniq = []
    for c in cases:
        if c[1] not in seen:
            seen.add(c[1])
            uniq.append(c)
    cases = uniq
    lines = []
    for cls, b in cases:
        for u in (0, 1):
            lines.append("S %d %s" % (u, b.hex() or "-"))
    impl = common.batch(hx, lines, timeout=900)
    modl = common.batch(oracle, [l.replace("S ", "S %s " % which, 1) for l in lines], timeout=900) if oracle else [None] * len(lines)
    idx = 0
    for cls, b in cases:
        for u in (0, 1):
            i, m = impl[idx], modl[idx]
            idx += 1
            chk.case(("S", u, b))
            v = i.split(" ")[0]
            chk.count("stream:%s:%s" % (cls.split(":")[0], v))
            # spec decider on the implementation: the walk must end cleanly
            if v in ("oob", "noprogress", "hang"):
                chk.violation("stream_step:%s" % {"oob": "read-outside-buffer", "noprogress": "cursor-does-not-advance", "hang": "cursor-does-not-advance"}[v],
                              "stream.c on %d bytes (%s, unsorted=%d): %s" % (len(b), cls, u, i[:120]),
                              {"stream_obs_hex": b.hex(), "unsorted": u, "impl": i[:400], "model": (m or "")[:400],
                               "how": "harness/loader_h.c: S %d <hex>; or write the bytes as stream.obs of a one-thread trace and run ovnidump" % u,
                               "theorems": "C19_unfixed_*_refuted (model of the code as found), C19_stream_total_partial (repaired)"})
            # independent format spec vs implementation (sorted consumer is the emulator)
            ok, evs, why = L.validate_obs(b, sorted_required=(u == 0))
            if v == "end" and not ok:
                corr_broken.append(("spec-invalid-accepted", b.hex()[:200], u, i[:100], why))
            if ok and v != "end":
                corr_broken.append(("spec-valid-rejected", b.hex()[:200], u, i[:100]))
            if ok and v == "end" and i.split(" ", 1)[1] != L.evs_signature(evs):
                corr_broken.append(("events-differ", b.hex()[:200], u, i[:100], L.evs_signature(evs)[:100]))
            if m is not None:
                mv = m.split(" ")[0]
                if mv in ("end", "err", "loaderr"):
                    if i != m:
                        corr_broken.append(("S", b.hex()[:200], u, i[:100], m[:100]))
                else:
                    # model predicts undefined behaviour / no progress: the real code must show a defect too
                    if v in ("end", "err", "loaderr") and mv != "overflow":
                        corr_broken.append(("S-defect-not-observed", b.hex()[:200], u, i[:100], m[:100]))
    chk.sample({"op": "stream walk", "bytes_hex": cases[len(cases) // 2][1].hex()[:160], "impl": impl[len(cases)][:120], "model": (modl[len(cases)] or "")[:120]})

    # ---- A2: event sizes, translated C vs compiled C: every flag byte x the size-field family
    zl = []
    zin = []
    for f in range(256):
        for sz in ([0] if not (f & 0x10) else JUMBO_SIZES):
            evb = struct.pack("<B3sQ", f, b"OB.", 1) + struct.pack("<I", sz) + b"\0" * 12
            zl.append("Z " + evb.hex())
            zin.append((f, sz))
    zi = common.batch(hx, zl)
    zm = common.batch(oracle, zl) if oracle else [None] * len(zl)
    for (f, sz), i, m in zip(zin, zi, zm):
        chk.case(("Z", f, sz))
        if m is None:
            continue
        ms, mp = [int(x) for x in m.split()]
        if -2 ** 31 <= ms < 2 ** 31 and i != m:      # outside: signed overflow in the C, anything goes
            corr_broken.append(("Z", f, sz, i, m))
    chk.count("ev_size:flags-x-sizes", len(zl))

    # ---- A3: emu_ev over sequences of events
    el = []
    for k in range(chk.budget(300, 3000)):
        r = rng.fork("E%d" % k)
        seq = []
        for _ in range(r.range(1, 5)):
            f = r.choice([0, 0, 1, 3, 7, 15, 0x10, 0x13, 0x1F, 0x20, 0x93])
            sz = r.choice([0, 1, 4, 5, 100, 0xFFFFFFFC, 0xFFFFFFFB, 0x7FFFFFFF]) if f & 0x10 else 0
            mcv = r.choice([b"VYc", b"6Yc", b"OHx", b"OB."])
            seq.append((struct.pack("<B3sQ", f, mcv, r.below(1000)) + struct.pack("<I", sz) + b"\x01" * 12).hex())
        el.append(";".join(seq))
    ei = common.batch(hx, ["E " + x for x in el])
    em = common.batch(oracle, ["E %s %s" % (which, x) for x in el]) if oracle else [None] * len(el)
    for x, i, m in zip(el, ei, em):
        chk.case(("E", x))
        if m is not None and i != m:
            corr_broken.append(("E", x[:200], i[:120], m[:120]))
    chk.count("emu_ev:sequences", len(el))

    # ---- B + C: the real tools on mutated traces, ASan+UBSan build, heap-buffer hook
    # (the build cache is shared and pruned by other checks: make sure both builds are still there)
    build = common.repo_build("hook")
    asan = common.repo_build("asan")
    wd = trace.workdir()
    try:
        jobs = []
        # corpus first
        for name, d in L.load_corpus("C19"):
            jobs.append({"k": "corpus-" + name, "cls": "corpus:" + name, "copy_from": d})
        nb = chk.budget(60, 400)
        per = chk.budget(30, 60)
        for k in range(nb):
            r = rng.fork("C%d" % k)
            th = L.gen_trace(r, models, small=(k % 4 == 0))
            jobs.append({"k": "v%d" % k, "cls": "valid", "threads": th})
            for j in range(per):
                ti = r.below(len(th))
                if r.chance(3, 5):
                    cls, b = mutate_obs(r, L.obs_of(th[ti]), 1)[0]
                    jobs.append({"k": "m%d_%d" % (k, j), "cls": "obs:" + cls, "threads": th, "obs": {ti: b}})
                else:
                    cls, b = mutate_json(r, th[ti]["meta"], 1)[0]
                    jobs.append({"k": "m%d_%d" % (k, j), "cls": cls, "threads": th, "meta": {ti: b}})
        # the boundary family through the tools as well (single thread)
        th1 = L.gen_trace(rng.fork("bnd"), models, small=True)[:1]
        for n, (cls, b) in enumerate(c for c in cases if c[0] == "boundary"):
            if n % chk.budget(6, 1) == 0:
                jobs.append({"k": "b%d" % n, "cls": "obs:boundary", "threads": th1, "obs": {0: b}})

        # every event the tree declares (ovnievents), right after OHx and LAST in the stream so that any read
        # past its payload leaves the exact-size heap buffer; all models required
        decl = declared_events(build)
        chk.coverage["declared_events"] = len(decl)
        req_all = {name: v for (_, name, v) in models}
        stride = chk.budget(3, 1)
        nsweep = 0
        for n, (mcv, isj, args) in enumerate(decl):
            r = rng.fork("D" + mcv)
            shapes = shapes_of(r, mcv, isj, args)
            for sn, (scls, evb) in enumerate(shapes):
                if (n + sn) % stride != 0 and "str" not in args:
                    continue      # (events with a string argument always get every shape)
                meta = trace.thread_meta(1000, 100, "n0", require=req_all, cpus=[(0, 0), (1, 1)])
                meta["ovni"]["mark"] = json.loads(json.dumps(L.MARKS))
                obs = HDR + trace.ev_bytes("OHx", 1000, struct.pack("<iiI", 0, 1000, 0)) + evb
                if (n + sn) % 4 == 0:
                    obs += trace.ev_bytes("OHe", 3000)
                th = [{"loom": "n0", "pid": 100, "tid": 1000, "meta": meta, "events": []}]
                jobs.append({"k": "d%d_%d" % (n, sn), "cls": "decl:" + scls.rstrip("="), "threads": th, "obs": {0: obs}, "mcv": mcv})
                nsweep += 1
        chk.coverage["declared_event_shape_cases"] = nsweep

        def run_job(job):
            d = os.path.join(wd, job["k"])
            if "copy_from" in job:
                shutil.copytree(job["copy_from"], d)
            else:
                L.write_threads(d, job["threads"], obs_override=job.get("obs"), meta_override=job.get("meta"))
            files = L.files_of(d)
            res = {}
            for tool, args, heap in (("ovnidump", [], True), ("ovnidump", ["-x"], True), ("ovnitop", [], True), ("ovniemu", [], True),
                                     ("ovnisort", ["-c"], True), ("ovnisort", ["-n", "6"], False), ("ovnisort", [], False)):
                rc, out, err, bad = L.run_judged(L.keep_build(asan), tool, args, d, heapbuf=heap, timeout=10)
                # one "<clock>  MCV  <relpath>  ..." record per event (M, C, V or a printed string may hold a newline)
                res[tool + "".join(args)] = (rc, out.count("  loom.n0/proc."), bad, err[-1800:] if bad else "")
            shutil.rmtree(d, ignore_errors=True)
            return files, res

        results = trace.pmap(run_job, jobs)
        # model verdicts for the single-stream obs mutants (tool-level differential)
        ml = []
        mj = []
        for job, (files, res) in zip(jobs, results):
            if job.get("obs") and len(job["threads"]) == 1:
                b = job["obs"][0]
                ml.append("S %s 1 %s" % (which, b.hex() or "-"))
                mj.append((job, res, b))
        mo = common.batch(oracle, ml, timeout=900) if (oracle and ml) else []
        mo0 = common.batch(oracle, [l.replace(" 1 ", " 0 ", 1) for l in ml], timeout=900) if (oracle and ml) else []
        for (job, res, b), m0 in zip(mj, mo0):
            # ovniemu is a sorted consumer: whatever the model rejects, it must reject (exit 1, no "finished ok")
            rc, nlines, bad, err = res["ovniemu"]
            if not bad and m0.split(" ")[0] in ("err", "loaderr") and rc != 1:
                corr_broken.append(("ovniemu", b.hex()[:200], "rc=%s" % rc, m0[:100]))
            chk.count("ovniemu-vs-model:" + m0.split(" ")[0])
        for (job, res, b), m in zip(mj, mo):
            mv = m.split(" ")[0]
            rc, nlines, bad, err = res["ovnidump"]
            if bad:
                continue
            if mv == "end":
                nev = 0 if m.split(" ")[1] == "-" else len(m.split(" ")[1].split(","))
                if rc != 0 or nlines != nev:
                    corr_broken.append(("ovnidump", b.hex()[:200], "rc=%s lines=%d" % (rc, nlines), m[:100]))
            elif mv in ("err", "loaderr"):
                if rc != 1:
                    corr_broken.append(("ovnidump", b.hex()[:200], "rc=%s" % rc, m[:100]))
            chk.count("ovnidump-vs-model:" + mv)
        for job, (files, res) in zip(jobs, results):
            for tool, (rc, nlines, bad, err) in res.items():
                chk.case(("T", tool, job["k"], sorted(files.items())))
                chk.count("tool:%s:%s" % (job["cls"].split(":")[0] + (":" + job["cls"].split(":")[1] if job["cls"].startswith(("obs:", "decl:")) else ""),
                                          "clean" if not bad else bad[0]))
                if bad:
                    # key = the defect (sanitizer kind + first frame in the repo's sources), not the tool that hit it;
                    # hangs and signals carry no stack: keyed by tool
                    base_tool = tool.replace("-c", "").replace("-x", "")
                    key = "%s:%s" % (bad[0], bad[1]) if bad[0] == "sanitizer" else "%s:%s:%s" % (base_tool, bad[0], bad[1])
                    chk.violation(key, "%s on a %s trace: %s (%s), exit status/signal %s" % (tool, job["cls"], bad[0], bad[1], rc),
                                  {"tool": tool, "mutation": job["cls"] + ((" event " + job["mcv"]) if "mcv" in job else ""), "exit": rc, "files": files, "stderr_tail": err,
                                   "env": "OVNI_VERIF_HEAPBUF=1 ASAN_OPTIONS=detect_leaks=0:abort_on_error=0 (ASan+UBSan build of the working tree)",
                                   "how": "write the files (hex) under a trace directory with the same relative paths and run the tool on it"})
        chk.sample({"op": "tools on mutated trace", "mutation": jobs[-1]["cls"], "results": {t: (r[0], r[2]) for t, r in results[-1][1].items()}})
        chk.coverage["tool_runs"] = 6 * len(jobs)
        chk.coverage["traces_validated_against_impl"] = len(jobs)
    finally:
        shutil.rmtree(wd, ignore_errors=True)

    if corr_broken:
        chk.coverage["correspondence_disagreements"] = [repr(x)[:300] for x in corr_broken[:10]]
        if True:
            chk.violation("broken-correspondence", "model and implementation disagree on %d inputs, none of which violates the property's spec" % len(corr_broken),
                          {"correspondence": "loader model vs real stream.c / emu_ev.c / ovnidump", "disagreements": [repr(x)[:400] for x in corr_broken[:20]]},
                          found_input=False)
    chk.coverage["rule"] = ("byte strings: valid traces from the generator (1-3 threads, OHx..OHe, flush/sort/burst/pause/affinity/mark/jumbo VYc) mutated "
                            "structure-aware (flags byte, jumbo bit and size field incl. the int-overflow family, truncation at every offset of small traces, "
                            "inserted hostile jumbo headers, clocks, header bytes, payload nibble, short jumbo payloads, byte flips) + stream.json mutants "
                            "(wrong JSON types and huge numbers at every path the emulator reads, truncation, flips); distinct = distinct bytes; "
                            "in-process walks compare model and real stream.c line by line, tools are judged by exit status in {0,1}, no signal, no timeout (10 s), no sanitizer report")
