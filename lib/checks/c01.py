"""C01 - runtime stream fidelity: every emitted event lands once, in order, byte-exact."""
import hashlib
import os

from vf import common, trace
from checks import rtbuf_common as rb

LEVEL = "proof"


def run(chk):
    chk.trusted_base = common.BASE_TRUST + [
        "translator translate/c2gallina.py (clang JSON AST -> Gallina) for get_jumbo_payload_size, ovni_payload_size, ovni_ev_size and the constants (sizeof, OVNI_EV_JUMBO, OVNI_MAX_EV_BUF, OVNI_STREAM_VERSION), regenerated from the tree under test on every run",
        "translator unit translate/units/rtbuf.py (stage-C core _stagec.py + the wrappers listed in its header) for flush_evbuf, ovni_clock_now, ovni_ev_set_clock/get_clock/set_mcv, ovni_payload_add, add_flush_events, ovni_ev_add, ovni_ev_add_jumbo, ovni_flush, ovni_ev_emit, ovni_ev_jumbo_emit, ovni_mark_push/pop/set, regenerated on every run and proved equal to the hand model RtBufDefs (fx = true); hand-written underneath (coq/Rt/RtBufPre.v, Rt/RtBufApiDefs.v): write_evbuf = write all bytes or die, memcpy with bounds on evbuf / the payload union / read-only data with struct ovni_ev as source = CodecDefs.struct_bytes (packed, little endian), clock_monotonic_now = next clock input, die = abort, struct ovni_ev x = {0}, atomic_load(&rproc.st) = ST_READY, the caller programs api_call, ovni_thread_init/ovni_thread_free stand-ins",
        "hand model coq/Rt/RtBufDefs.v of ovni_ev_add/ovni_ev_add_jumbo/add_flush_events/ovni_flush/flush_evbuf/write_stream_header/ovni_payload_add/ovni_mark_* tied by byte-for-byte comparison of stream.obs with the extracted model on generated op scripts",
        "harness/rtbuf_drv.c (clock_gettime interposed in the driver; one forked child per script) and the OVNI_VERIF_EVBUF hook of /repo",
        "extraction (ExtrOcamlBasic only) + OCaml 4.13 + oracle/rtbuf_drv.ml (script syntax, blob expansion, md5)",
        "write(2) completes (short writes/errors are C10's subject); little-endian target",
    ]
    chk.assumptions = ["one thread per stream; the process is initialised (C11 covers init/fini)",
                       "clock_gettime is the only source of time (USE_TSC off, as in the default build)"]
    ctx = rb.setup(chk)
    rng = chk.rng
    quick = chk.tier == "quick"

    cases = []
    for fn, ln in rb.load_corpus("C01") + rb.load_corpus("C02"):
        c = rb.parse_line(ln)
        c.cls = "corpus"
        cases.append(c)
    caps = [128] if quick else [128, 257, 512]
    cases += rb.gen_rejected(rng.fork("rej"), [64, 128] if quick else [64, 128, 257, 512])
    nexh = 0
    for cap in caps:
        ex = rb.gen_exhaustive(rng.fork("exh%d" % cap), cap, clocks="sorted" if cap != 257 else "wild")
        nexh += len(ex)
        cases += ex
    # a wild-clock exhaustive slice also in quick mode (byte-exact clocks incl. 2^64-1)
    cases += rb.gen_exhaustive(rng.fork("exw"), 64, clocks="wild")
    cases += rb.gen_random(rng.fork("rnd"), chk.budget(150, 2500), wild=True)
    small = cases
    big = rb.gen_big(rng.fork("big"), chk.budget(24, 300), ctx.defcap)
    # refused/accepted at the real capacity
    big += [c for c in rb.gen_rejected(rng.fork("rejD"), [ctx.defcap]) if "jumbo" in c.cls]
    for c in big:
        c.cap = None

    stats = {"variant_fixed": 0, "variant_old": 0, "variant_both": 0, "flushes": 0}
    corr_broken = []

    def judge(c, res):
        capv = c.cap if c.cap is not None else ctx.defcap
        chk.case(c.fingerprint())
        chk.count(c.cls.split(":")[0])
        exp, badidx, why = rb.expected_status(c, capv)
        ist = res["impl_status"]
        replay = {"script": c.short(4000), "cap": capv, "environment": res.get("environment"), "how": "echo '<script>' | build/harness/rtbuf_drv-* <dir>  (OVNI_VERIF_EVBUF=cap)",
                  "impl_status": ist}
        if exp == "abort":
            chk.count("expected-abort")
            if ist != "abort":
                chk.violation("accepts-refused-call:%s" % c.cls, "call that the API must refuse (%s) did not abort: %s" % (why, ist), replay)
        else:
            if ist == "abort":
                chk.violation("aborts-accepted-call:%s:%s" % (c.cls, c.fingerprint()), "a script of accepted calls aborted", replay)
            elif ist != "ok":
                chk.violation("driver-%s:%s" % (ist, c.fingerprint()), "driver outcome %s" % ist, replay, found_input=False)
        if ist == "ok":
            # complete = a flush follows the last event-producing op
            last_ev = max([i for i, o in enumerate(c.ops) if o.kind in "EJPOS"] + [-1])
            complete = any(o.kind == "F" for o in c.ops[last_ev + 1:])
            bad = rb.fidelity_decide(c, res, complete)
            if bad:
                replay2 = dict(replay)
                replay2.update({"reason": bad[0], "detail": bad[1]})
                chk.violation("fidelity:%s:%s" % (bad[0], c.cls), "stream.obs does not hold the emitted events once, in order, byte-exact: %s (%s)" % bad, replay2)
            if res["obs"] is not None:
                stats["flushes"] += res["obs"].count(b"\x00OF[")
        # correspondence with the model
        mm = rb.model_match(c, res)
        if mm == "both":
            stats["variant_both"] += 1
        elif mm == "fixed":
            stats["variant_fixed"] += 1
        elif mm == "old":
            stats["variant_old"] += 1
        elif mm is None:
            corr_broken.append({"script": c.short(1500), "impl": ist, "impl_len": len(res["obs"] or b""),
                                "model": res["m1"]["status"], "model_len": res["m1"].get("disk_len")})
        return (c.cls, ist)

    rb.run_all(ctx, small, judge, chunk=48)
    rb.run_all(ctx, big, judge, chunk=2, workers=12)

    if small:
        s = small[len(small) // 2]
        chk.sample({"class": s.cls, "script": s.short(500)})
    if big:
        chk.sample({"class": big[0].cls, "script": big[0].short(500)})
    chk.coverage["tree_variant"] = ("repaired add_flush_events" if stats["variant_old"] == 0 else
                                    "pre-repair add_flush_events (model variant fx=false matches; the C01 theorems are proved for both variants)")
    chk.coverage["model_match"] = stats
    chk.coverage["exhaustive_segments_scripts"] = nexh
    chk.coverage["flush_markers_seen_on_disk"] = stats["flushes"]
    if stats["variant_old"] and stats["variant_fixed"]:
        corr_broken.append({"note": "implementation matches the repaired model on some inputs and the pre-repair model on others",
                            "counts": dict(stats)})
    if corr_broken:
        chk.coverage["correspondence_disagreements"] = corr_broken[:10]
        if not chk.violations:
            chk.violation("broken-correspondence", "model and implementation disagree on %d scripts, none of which violates the property's spec" % len(corr_broken),
                          {"correspondence": "extracted RtBuf model vs libovni.so, stream.obs byte for byte", "disagreements": corr_broken[:20]},
                          found_input=False)
    chk.coverage["traces_validated_against_impl"] = len(small) + len(big)
    chk.coverage["exhaustive"] = False
    chk.coverage["rule"] = ("(a) hooked buffer OVNI_VERIF_EVBUF in %s: every reachable fill level x every next event (payload 0,2..16; jumbo data 0..cap-17; mark push/pop/set), "
                            "levels reached after an explicit flush (evlen 24) or from the thread start; (b) real capacity: evlen parked 1..44 bytes below the boundary with one big jumbo, then every normal size/mark/small jumbo, "
                            "and near-capacity jumbos themselves; (c) random scripts over caps 64..4096 incl. wild 64-bit clocks; (d) refused calls and their accepted neighbours. "
                            "distinct = distinct script text") % caps
