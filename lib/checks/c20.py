"""C20 - breakdown view: rows always hold the sorted per-CPU breakdown values.

Proof part: coq/Props/Properties_C20.v (model: coq/Emu/SortDefs.v).
Tie to the code, all against the build of /repo's working tree:
  (a) in-process: harness/sort_h.c runs the real sort_replace, the real sort module on a real
      bay, and the real breakdown wiring (connect_cpu/select_tr/select_idle of
      {nosv,nanos6}/breakdown.c) next to the extracted model (oracle/sortmod_drv.ml);
  (b) end to end: generated valid nOS-V / Nanos6 traces through `ovniemu -b`; an independent
      decider (Python below, cross-checked with the extracted Coq rows_ok) is applied to the
      *-breakdown.prv rows against the per-CPU values derived from cpu.prv of the same run.

The model is the one of connect_cpu as repaired by /repo commit bca364a (mux_add_reselect on the task
type channel; former finding keys nosv-task-pause-in-body / nanos6-task-pause-in-body).  A tree without
the repair fails the wiring part of (a) on task-type-only batches, the in-process witnesses and the corpus cases 01/02
with concrete inputs.
"""
import hashlib
import itertools
import json
import os
import re
import shutil
import struct

from vf import common, trace

LEVEL = "proof"

I64MIN = -(1 << 63)
I64MAX = (1 << 63) - 1


# ------------------------------------------------------------------ independent spec (Python)

def to_i64(v):
    """N (null) and D<bits> (double) read as 0 by the sort module"""
    if v == "N" or (isinstance(v, str) and v.startswith("D")):
        return 0
    return int(v)


def spec_replace_ok(arr, old, new, res):
    """what C20 demands of sort_replace on its domain: sorted, one `old` replaced by `new`"""
    want = list(arr)
    want.remove(old)
    want.append(new)
    return all(res[i] <= res[i + 1] for i in range(len(res) - 1)) and sorted(res) == sorted(want)


def spec_rows_ok(rows, percpu):
    return all(rows[i] <= rows[i + 1] for i in range(len(rows) - 1)) and sorted(rows) == sorted(percpu)


def spec_bd_value(K, tt, ss, idle):
    """per-CPU breakdown value from the three CPU channel values (0 = null)"""
    body, unknown, prog = K
    if idle != prog:
        return idle
    if ss == body and tt != 0:
        return tt
    if ss == 0:
        return unknown
    return ss


# ------------------------------------------------------------------ harness calls that survive a crash

def impl_batch(exe, lines, timeout=1200, budget=None):
    """common.batch, but a harness that dies (signal) on some line answers "crash" for exactly that line:
    the failing input is found by bisection so that it can be reported as a concrete case."""
    if budget is None:
        budget = [40]
    try:
        return common.batch(exe, lines, timeout=timeout)
    except RuntimeError:
        if len(lines) == 1:
            budget[0] -= 1
            return ["crash"]
        if budget[0] <= 0:
            return ["crash?"] * len(lines)
        mid = len(lines) // 2
        return impl_batch(exe, lines[:mid], timeout, budget) + impl_batch(exe, lines[mid:], timeout, budget)


# ------------------------------------------------------------------ (a1) sort_replace

def gen_replace_cases(rng, nrandom):
    cases = []
    # exhaustive: all sorted arrays n <= 5 over 0..4, every present old, every new in -1..5
    for n in range(1, 6):
        for arr in itertools.combinations_with_replacement(range(5), n):
            for old in sorted(set(arr)):
                for new in range(-1, 6):
                    cases.append((list(arr), old, new, "exh"))
            # old absent but something >= old: defined C behaviour, model correspondence only
            for old in range(-1, 5):
                if old not in arr and any(x >= old for x in arr):
                    cases.append((list(arr), old, old + 7, "absent"))
                    cases.append((list(arr), old, old - 7, "absent"))
    # random, n <= 64, many ties
    for k in range(nrandom):
        r = rng.fork("rep%d" % k)
        n = r.choice([1, 2, 3, 4, 5, 6, 7, 8, 9, 15, 16, 17, 31, 32, 33, 63, 64]) if r.chance(1, 2) else r.range(1, 64)
        style = r.below(6)
        if style == 0:
            dom = [0, 1]
        elif style == 1:
            dom = list(range(4))
        elif style == 2:
            dom = list(range(-3, 12))
        elif style == 3:
            dom = [I64MIN, I64MIN + 1, -1, 0, 1, I64MAX - 1, I64MAX]
        elif style == 4:
            dom = [2, 6, 7, 11, 28, 100, 101, 102, 1637111205]
        else:
            dom = list(range(0, 1000))
        arr = sorted(r.choice(dom) for _ in range(n))
        # aim at the n/2 jump: old around the middle element, before it, after it
        pick = r.below(4)
        if pick == 0:
            old = arr[n // 2]
        elif pick == 1:
            old = arr[min(n - 1, n // 2 + 1)]
        elif pick == 2:
            old = arr[max(0, n // 2 - 1)]
        else:
            old = r.choice(arr)
        new = r.choice(dom + [arr[0], arr[-1], arr[n // 2]])
        if r.chance(1, 8):
            new = r.choice([arr[0] - 1 if arr[0] > I64MIN else arr[0], arr[-1] + 1 if arr[-1] < I64MAX else arr[-1]])
        cases.append((arr, old, new, "rnd"))
    # old == new: die()
    cases += [([1, 2, 3], 2, 2, "die"), ([0], 0, 0, "die"), ([5, 5], 5, 5, "die")]
    return cases


def check_replace(chk, hx, oracle, corr_broken):
    cases = gen_replace_cases(chk.rng, chk.budget(4000, 150000))
    lines = ["R %d %d %d %s" % (old, new, len(arr), " ".join(map(str, arr))) for (arr, old, new, _) in cases]
    impl = impl_batch(hx, lines, timeout=900)
    modl = common.batch(oracle, lines, timeout=900) if oracle else [None] * len(lines)
    nojump = common.batch(oracle, ["J" + l[1:] for l in lines], timeout=900) if oracle else [None] * len(lines)
    for (arr, old, new, cls), ln, i, m, j in zip(cases, lines, impl, modl, nojump):
        chk.case(("R", ln))
        chk.count("replace:" + cls)
        if cls in ("exh", "rnd") and old != new:
            ok = i.startswith("ok ")
            res = [int(x) for x in i.split()[1:]] if ok else None
            if not ok or len(res) != len(arr) or not spec_replace_ok(arr, old, new, res):
                chk.violation("replace:%d:%d:%s" % (old, new, ",".join(map(str, arr))),
                              "sort_replace(%s, old=%d, new=%d) gave %r: not the sorted array with one %d replaced by %d" % (arr, old, new, i, old, new),
                              {"how": "harness/sort_h.c line: " + ln, "impl": i, "model": m})
            if n_jump_taken(arr, old, new):
                chk.count("replace:jump-taken")
        elif cls == "die" or old == new:
            if i != "die":
                chk.violation("replace-die:%d:%s" % (old, ",".join(map(str, arr))),
                              "sort_replace with old == new returned instead of dying: %r" % i, {"line": ln, "impl": i})
        if m is not None and i != m:
            corr_broken.append(("R", ln, i, m))
        if m is not None and j is not None and cls in ("exh", "rnd") and m != j:
            corr_broken.append(("R-jump-vs-nojump", ln, m, j))
    chk.sample({"op": "sort_replace", "line": lines[700], "impl": impl[700], "model": modl[700]})


def n_jump_taken(arr, old, new):
    return old < new and arr[len(arr) // 2] < old


# ------------------------------------------------------------------ (a2) sort module

def gen_module_scripts(rng, nrandom, tier):
    scripts = []     # (n, [segments]) ; segment = list of (i, v)
    vals = ["N", "0", "1", "2"]
    # bounded-exhaustive: one input change per propagation
    for n, L in ((1, 5), (2, 4), (3, 3 if tier == "quick" else 4)):
        choices = [(i, v) for i in range(n) for v in vals]
        for h in itertools.product(choices, repeat=L):
            scripts.append((n, [[w] for w in h], "exh"))
    # bounded-exhaustive: two inputs changed in one propagation
    choices2 = [(i, v) for i in range(2) for v in ["N", "1", "2"]]
    for a in itertools.product(choices2, repeat=4):
        scripts.append((2, [[a[0], a[1]], [a[2], a[3]]], "exh2"))
    for k in range(nrandom):
        r = rng.fork("mod%d" % k)
        n = r.choice([1, 2, 3, 4, 5, 8, 16, 33, 64]) if r.chance(2, 3) else r.range(1, 64)
        style = r.below(5)
        if style == 0:
            dom = ["N", "0", "1"]
        elif style == 1:
            dom = ["N", "2", "6", "11", "28", "100", "101", "1637111205"]
        elif style == 2:
            dom = ["N", "D4607182418800017408", "-1", "0", "1", str(I64MIN), str(I64MAX)]
        elif style == 3:
            dom = [str(x) for x in range(-2, 6)]
        else:
            dom = [str(x) for x in range(1000)] + ["N"]
        segs = []
        for _ in range(r.range(1, 40 if n <= 8 else 120)):
            p = r.below(10)
            if p < 6:
                segs.append([(r.below(n), r.choice(dom))])
            elif p < 7:
                segs.append([])
            else:
                segs.append([(r.below(n), r.choice(dom)) for _ in range(r.range(2, 4))])
        scripts.append((n, segs, "rnd"))
    return scripts


def script_text(segs):
    return "|".join(",".join("%s=%s" % (i, v) for (i, v) in seg) if seg else "-" for seg in segs)


def check_module(chk, hx, oracle, corr_broken):
    scripts = gen_module_scripts(chk.rng, chk.budget(600, 20000), chk.tier)
    lines = ["M %d %s" % (n, script_text(segs)) for (n, segs, _) in scripts]
    impl = impl_batch(hx, lines, timeout=1200)
    modl = common.batch(oracle, lines, timeout=1200) if oracle else [None] * len(lines)
    srows = []
    for (n, segs, cls), ln, i, m in zip(scripts, lines, impl, modl):
        chk.case(("M", ln))
        chk.count("module:" + cls)
        if m is not None and i != m:
            corr_broken.append(("M", ln[:400], i[:400], m[:400]))
        # spec on the implementation's answer
        inputs = ["N"] * n
        prev = ["N"] * n
        parts = i.split(" | ")
        bad = None
        if len(parts) != len(segs) or "error" in i or "?" in i or "crash" in i:
            bad = "harness reported %r" % i[:200]
        else:
            for seg, part in zip(segs, parts):
                for (idx, v) in seg:
                    inputs[idx] = v
                outs_s, _, wr_s = part.partition(";")
                outs = outs_s.split()
                wr = [int(x) for x in wr_s.split()]
                rows = [to_i64(x) for x in outs]
                if len(outs) != n or not spec_rows_ok(rows, [to_i64(x) for x in inputs]):
                    bad = "after %r rows %s are not the sorted input values %s" % (seg, outs, inputs)
                    break
                changed = [k for k in range(n) if outs[k] != prev[k]]
                single = len(set(idx for idx, _ in seg)) <= 1
                if single and wr != changed:
                    bad = "after %r outputs %s were written but exactly %s changed value" % (seg, wr, changed)
                    break
                if not set(changed) <= set(wr):
                    bad = "after %r outputs %s changed value but only %s were written" % (seg, changed, wr)
                    break
                if len(srows) < 400:
                    srows.append((rows, [to_i64(x) for x in inputs]))
                prev = outs
        if bad:
            chk.violation("module:%s" % hashlib.md5(ln.encode()).hexdigest()[:12],
                          "sort module (n=%d): %s" % (n, bad), {"how": "harness/sort_h.c line: " + ln, "impl": i, "model": m})
    chk.sample({"op": "sort module", "line": lines[-1][:300], "impl": impl[-1][:300], "model": (modl[-1] or "")[:300]})
    # the Python decider and the extracted Coq decider (rows_ok, C20_spec_decider) agree
    if oracle and srows:
        extra = [([0, 1, 1], [1, 0, 1]), ([1, 0], [0, 1]), ([0, 1], [0, 2]), ([0, 0, 1], [0, 1, 1]), ([], [])]
        allr = srows + extra
        ans = common.batch(oracle, ["S %s ; %s" % (" ".join(map(str, r)), " ".join(map(str, p))) for r, p in allr])
        for (r, p), a in zip(allr, ans):
            if (a == "1") != spec_rows_ok(r, p):
                corr_broken.append(("S", r, p, a))
        chk.count("spec-decider-crosscheck", len(allr))


# ------------------------------------------------------------------ (a3) wiring

def gen_wiring_scripts(rng, K, nrandom, tier):
    body, unknown, prog = K
    sv = ["N", str(body), "6"]
    tv = ["N", "77"]
    iv = ["N", str(prog), str(prog + 1)]
    dom = {"S": sv, "T": tv, "I": iv}
    batches = [[]]
    for k in (1, 2, 3):
        for chans in itertools.permutations("STI", k):
            for vals in itertools.product(*[dom[c] for c in chans]):
                batches.append(list(zip(chans, vals)))
    scripts = []
    # the emulator's own first event (running thread appears) followed by every pair of batches
    first = [("T", "N"), ("S", "N"), ("I", str(prog))]
    if tier == "thorough":
        for a in batches:
            for b in batches:
                scripts.append(([first, a, b], "exh"))
    for a in batches:
        scripts.append(([a], "exh"))
        scripts.append(([first, a], "exh"))
        scripts.append(([first, [("S", str(body)), ("T", "77")], a], "exh"))
    # admissible-by-construction event sequences (what ovniemu does), long
    for k in range(nrandom):
        r = rng.fork("wir%d" % k)
        segs = [first]
        ss, tt = "N", "N"
        for _ in range(r.range(2, 30)):
            p = r.below(10)
            if p < 3:
                ss = r.choice(["6", "7", "15", "28", "N"])
                segs.append([("S", ss)])
            elif p < 5:
                ss, tt = str(body), r.choice(["77", "78"])
                segs.append([("S", ss), ("T", tt)])
            elif p < 6:
                ss, tt = r.choice(["28", "N", "6"]), "N"
                segs.append([("S", ss), ("T", tt)])
            elif p < 8:
                segs.append([("I", r.choice(iv[1:] + [str(prog + 2)]))])
            elif p < 9:
                ss, tt = r.choice(sv + ["28"]), r.choice(tv)
                segs.append([("T", tt), ("S", ss), ("I", r.choice(iv[1:]))])
            else:
                # arbitrary batch (may be inadmissible)
                b = r.choice(batches)
                for c, v in b:
                    if c == "S":
                        ss = v
                    if c == "T":
                        tt = v
                segs.append(b)
        scripts.append((segs, "rnd"))
    return scripts


def wscript_text(segs):
    return "|".join(",".join("%s=%s" % (c, v) for (c, v) in seg) if seg else "-" for seg in segs)


def check_wiring(chk, name, hx, oracle, K, corr_broken):
    scripts = gen_wiring_scripts(chk.rng.fork(name), K, chk.budget(400, 10000), chk.tier)
    ks = "%d %d %d" % K
    lines = ["W %s %s" % (ks, wscript_text(segs)) for (segs, _) in scripts]
    impl = impl_batch(hx, lines, timeout=1200)
    modl = common.batch(oracle, lines, timeout=1200) if oracle else [None] * len(lines)
    verd = common.batch(oracle, ["O" + l[1:] for l in lines], timeout=1200) if oracle else [None] * len(lines)
    # where the tree disagrees with the model of the repaired connect_cpu: does it behave like the
    # code before /repo commit bca364a (model variant fx = false, oracle command w)?
    differ = [k for k in range(len(lines)) if modl[k] is not None and impl[k] != modl[k]]
    oldm = dict(zip(differ, common.batch(oracle, ["w" + lines[k][1:] for k in differ], timeout=1200))) if oracle and differ else {}
    for k, ((segs, cls), ln, i, m, vd) in enumerate(zip(scripts, lines, impl, modl, verd)):
        chk.case(("W", name, ln))
        chk.count("wiring-%s:%s" % (name, cls))
        if m is not None and i != m:
            corr_broken.append(("W-" + name, ln[:300], i[:300], m[:300]))
            chk.count("wiring-%s:%s" % (name, "differs-from-model:equals-pre-bca364a-model" if oldm.get(k) == i
                                         else "differs-from-model:equals-neither-variant"))
        # spec on the implementation: while every batch so far is admissible (model's batch_ok),
        # the sort module must hold bd_value of the CPU's channels
        if vd is None or "error" in i or "crash" in i:
            if "error" in i or "crash" in i:
                chk.violation("wiring-error:%s:%s" % (name, hashlib.md5(ln.encode()).hexdigest()[:12]),
                              "breakdown wiring (%s) failed on %s: %s" % (name, ln, i), {"line": ln, "impl": i})
            continue
        cur = {"S": 0, "T": 0, "I": 0}
        allok = True
        for seg, part, v in zip(segs, i.split(" | "), vd.split(" | ")):
            for c, val in seg:
                cur[c] = to_i64(val)
            allok = allok and v.split()[0] == "1"
            if not allok:
                chk.count("wiring-%s:inadmissible-batch" % name)
                break
            f = part.split()
            want = spec_bd_value(K, cur["T"], cur["S"], cur["I"])
            if int(f[2]) != want:
                old = (" (the tree behaves like connect_cpu before /repo commit bca364a, without mux_add_reselect on the task type: "
                       "the repaired defect is back)") if oldm.get(k) == i else ""
                chk.violation("wiring:%s:%s" % (name, hashlib.md5(ln.encode()).hexdigest()[:12]),
                              "%s breakdown wiring: after admissible batch %r the sort input holds %s, breakdown value is %d%s" % (name, seg, f[2], want, old),
                              {"how": "harness/sort_h.c line: " + ln, "impl": i, "model": m, "model_of_code_before_bca364a": oldm.get(k)})
                break
            chk.count("wiring-%s:admissible-batch-checked" % name)
    chk.sample({"op": "breakdown wiring " + name, "line": lines[-1][:300], "impl": impl[-1][:300], "model": (modl[-1] or "")[:300]})


def replay_witnesses_inprocess(chk, name, hx, oracle, K, corr_broken):
    """The histories of the Coq witnesses on the real pipeline.
    pause / resume: witnesses of the defect repaired by /repo commit bca364a (C20_wiring_refuted_old,
    C20_wiring_resume_refuted_old on the model of the old code); the repaired code must show the breakdown value
    (C20_wiring_witnesses_fixed), anything else is a violation with this concrete input.
    order: C20_wiring_order_needed, a batch the emulator cannot produce (idle dirty before the subsystem);
    model correspondence only."""
    body, unknown, prog = K
    b, p, r = str(body), str(prog), str(prog + 1)
    wit = {
        "pause": "T=N,S=N,I=%s|S=%s,T=77|T=N" % (p, b),
        "resume": "T=N,S=N,I=%s|S=%s,T=77|T=N|T=N,S=N,I=%s|T=N,S=%s,I=%s|T=77" % (p, b, r, b, p),
        "order": "T=N,S=6,I=%s|I=%s,S=7" % (p, p),
    }
    # sort input at the end: (before the repair, required = breakdown value)
    exp = {"pause": (0, body), "resume": (body, 77), "order": (6, 7)}
    out = {}
    for k, sc in wit.items():
        ln = "W %d %d %d %s" % (body, unknown, prog, sc)
        i = impl_batch(hx, [ln])[0]
        m = common.batch(oracle, [ln])[0] if oracle else None
        if m is not None and i != m:
            corr_broken.append(("W-witness-" + name, ln, i, m))
        chk.case(("W-witness", name, ln))
        last = i.split(" | ")[-1].split()
        if "error" in i or "crash" in i or len(last) < 3:
            chk.violation("wiring-error:%s:witness-%s" % (name, k), "breakdown wiring (%s) failed on %s: %s" % (name, ln, i), {"line": ln, "impl": i})
            continue
        got = int(last[2])
        out[k] = {"script": sc, "impl_last": " ".join(last), "sort_value": got,
                  ("stale_value_of_the_hazard" if k == "order" else "value_before_repair_bca364a"): exp[k][0], "breakdown_value": exp[k][1]}
        if k == "order":
            chk.count("witness-%s-order:%s" % (name, "hazard-reproduced" if got == exp[k][0] else "hazard-not-reproduced"))
            continue
        if got == exp[k][1]:
            chk.count("witness-%s-%s:correct-row" % (name, k))
        else:
            chk.count("witness-%s-%s:%s" % (name, k, "old-defect-reproduced" if got == exp[k][0] else "wrong-row"))
            chk.violation("wiring-witness:%s:%s" % (name, k),
                          "%s breakdown wiring: task %s while 'Task: In body' is the top subsystem: the sort input holds %d, the breakdown "
                          "value is %d%s" % (name, "paused" if k == "pause" else "paused, CPU left and re-entered, task resumed", got, exp[k][1],
                                             " (defect repaired by /repo commit bca364a is back: mux0 keeps a stale selection)" if got == exp[k][0] else ""),
                          {"how": "harness/sort_h.c line: " + ln, "impl": i, "model": m})
    chk.coverage["witness_replay_inprocess_" + name] = out
    return out


# ------------------------------------------------------------------ (b) end to end

def u32(*a):
    return b"".join(struct.pack("<I", x & 0xFFFFFFFF) for x in a)


def i32(*a):
    return b"".join(struct.pack("<i", x) for x in a)


class Model:
    pass


def model_nosv(K, src):
    m = Model()
    m.name = "nosv"
    m.c = "V"
    m.K = K
    m.pairs = [("VSh", "VSf"), ("VS[", "VS]"), ("VU[", "VU]"), ("VMa", "VMA"), ("VMf", "VMF"), ("VAr", "VAR"),
               ("VAd", "VAD"), ("VAs", "VAS"), ("VAp", "VAP"), ("VAy", "VAY"), ("VAw", "VAW"), ("VAc", "VAC"),
               ("VAa", "VAA"), ("VAe", "VAE"), ("VAl", "VAL"), ("VAt", "VAT"), ("VAu", "VAU"), ("VAb", "VAB"),
               ("VAo", "VAO"), ("VAg", "VAG"), ("VAk", "VAK"), ("VHw", "VHW"), ("VHd", "VHD")]
    m.ss_dup = True
    m.resurrect = True
    m.task_payload = lambda tid: u32(tid, 0)
    m.version = re.search(r'\.version\s*=\s*"([^"]+)"', open(os.path.join(src, "nosv", "setup.c")).read()).group(1)
    m.meta = {"nosv": {"can_breakdown": True}}
    m.prvfile = "nosv-breakdown.prv"
    prv = open(os.path.join(src, "emu_prv.h")).read()
    g = lambda n: int(re.search(r"\b%s\s*=\s*(\d+)" % n, prv).group(1))
    m.t_type, m.t_ss, m.t_idle, m.t_bd = g("PRV_NOSV_TYPE"), g("PRV_NOSV_SUBSYSTEM"), g("PRV_NOSV_IDLE"), g("PRV_NOSV_BREAKDOWN")
    return m


def model_nanos6(K, src):
    m = Model()
    m.name = "nanos6"
    m.c = "6"
    m.K = K
    m.pairs = [("6W[", "6W]"), ("6Wt", "6WT"), ("6Ww", "6WW"), ("6Wm", "6WM"), ("6Ws", "6WS"), ("6Wr", "6WR"),
               ("6Wg", "6WG"), ("6C[", "6C]"), ("6U[", "6U]"), ("6F[", "6F]"), ("6O[", "6O]"), ("6Ma", "6MA"),
               ("6Mf", "6MF"), ("6Dr", "6DR"), ("6Du", "6DU"), ("6S[", "6S]"), ("6Sa", "6SA"), ("6Sp", "6SP"),
               ("6Bb", "6BB"), ("6Bu", "6BU"), ("6Bw", "6BW"), ("6Bf", "6BF")]
    m.ss_dup = False
    m.resurrect = False
    m.task_payload = lambda tid: u32(tid)
    m.version = re.search(r'\.version\s*=\s*"([^"]+)"', open(os.path.join(src, "nanos6", "setup.c")).read()).group(1)
    m.meta = {}
    m.prvfile = "nanos6-breakdown.prv"
    prv = open(os.path.join(src, "emu_prv.h")).read()
    g = lambda n: int(re.search(r"\b%s\s*=\s*(\d+)" % n, prv).group(1))
    m.t_type, m.t_ss, m.t_idle, m.t_bd = g("PRV_NANOS6_TYPE"), g("PRV_NANOS6_SUBSYSTEM"), g("PRV_NANOS6_IDLE"), g("PRV_NANOS6_BREAKDOWN")
    return m


BODY_MARK = "<body>"


def gen_trace(r, m, bare, tid_base=1000):
    """A valid trace by construction: returns (ncpu, threads{tid: [(clock, mcv, payload, jumbo)]}, description list).
    bare=False: tasks are paused/resumed only inside some other subsystem (as the runtimes do);
    bare=True: VTp/VTr may also happen with "Task: In body" on top of the subsystem stack."""
    c = m.c
    ncpu = r.choice([1, 2, 2, 3, 3, 4, 6])
    nth = r.range(1, min(ncpu + 2, 6))
    ths = []
    for t in range(nth):
        ths.append({"tid": tid_base + t, "st": "new", "cpu": None, "ss": [], "tasks": [], "idle": "p", "evs": [], "n": 0})
    busy = {}            # physical cpu -> tid of its running thread
    clock = [r.range(1, 50)]
    types = []
    tasks = {}           # id -> state: created / run / paused / dead
    desc = []
    nbare = [0]

    def emit(th, mcv, payload=b"", jumbo=None):
        clock[0] += r.range(1, 9)
        th["evs"].append((clock[0], mcv, payload, jumbo))
        desc.append("%d %d %s" % (clock[0], th["tid"], mcv))
        th["n"] += 1

    def free_cpus():
        return [x for x in range(ncpu) if x not in busy]

    def place(th, cpu):
        th["cpu"] = cpu
        if cpu >= 0:
            busy[cpu] = th["tid"]

    def unplace(th):
        if th["cpu"] is not None and th["cpu"] >= 0 and busy.get(th["cpu"]) == th["tid"]:
            del busy[th["cpu"]]

    def top_task(th):
        return th["tasks"][-1] if th["tasks"] else None

    def can_push(th, pair):
        return m.ss_dup or not th["ss"] or th["ss"][-1] != pair[0]

    def do_push(th):
        pair = r.choice(m.pairs)
        if can_push(th, pair) and len(th["ss"]) < 6:
            th["ss"].append(pair[0])
            emit(th, pair[0])
            return True
        return False

    def do_pop(th):
        if th["ss"] and th["ss"][-1] != BODY_MARK:
            push = th["ss"].pop()
            pop = [p for p in m.pairs if p[0] == push][0][1]
            emit(th, pop)
            return True
        return False

    def in_body_top(th):
        return bool(th["ss"]) and th["ss"][-1] == BODY_MARK

    def pause_ok(th):
        if bare:
            return True
        return not in_body_top(th)

    def step(th):
        """one random legal action of a running thread; returns False if nothing was emitted"""
        p = r.below(100)
        tt = top_task(th)
        if p < 6 and len(types) < 3:
            tyid = 10 + len(types)
            types.append(tyid)
            emit(th, c + "Yc", jumbo=u32(tyid) + b"type%d\0" % tyid)
            return True
        if p < 16 and types and len(tasks) < 12:
            tid_ = 1 + len(tasks)
            tasks[tid_] = "created"
            emit(th, c + "Tc", u32(tid_, r.choice(types)))
            return True
        if p < 34:
            return do_push(th)
        if p < 48:
            return do_pop(th)
        if p < 62:
            # execute a task: nothing running on top of this thread's stack
            if tt is not None and tt[1] == "run":
                return False
            if not m.ss_dup and in_body_top(th):
                return False
            cand = [k for k, s in tasks.items() if s == "created" or (s == "dead" and m.resurrect)]
            if not cand or len(th["ss"]) >= 7:
                return False
            k = r.choice(cand)
            tasks[k] = "run"
            th["tasks"].append([k, "run"])
            th["ss"].append(BODY_MARK)
            emit(th, c + "Tx", m.task_payload(k))
            return True
        if p < 70:
            if tt is not None and tt[1] == "run" and pause_ok(th):
                if in_body_top(th):
                    nbare[0] += 1
                tt[1] = "paused"
                tasks[tt[0]] = "paused"
                emit(th, c + "Tp", m.task_payload(tt[0]))
                return True
            return False
        if p < 78:
            if tt is not None and tt[1] == "paused" and pause_ok(th):
                if in_body_top(th):
                    nbare[0] += 1
                tt[1] = "run"
                tasks[tt[0]] = "run"
                emit(th, c + "Tr", m.task_payload(tt[0]))
                return True
            return False
        if p < 84:
            if tt is not None and tt[1] == "run" and in_body_top(th):
                th["tasks"].pop()
                th["ss"].pop()
                tasks[tt[0]] = "dead"
                emit(th, c + "Te", m.task_payload(tt[0]))
                return True
            return False
        if p < 92:
            new = r.choice([x for x in "pra" if x != th["idle"]])
            th["idle"] = new
            emit(th, c + "P" + new)
            return True
        if p < 95:
            fc = free_cpus()
            if fc or r.chance(1, 4):
                tgt = r.choice(fc) if fc and not r.chance(1, 6) else -1
                if tgt == th["cpu"]:
                    return False
                unplace(th)
                place(th, tgt)
                emit(th, "OAs", i32(tgt))
                return True
            return False
        if p < 98:
            unplace(th)
            th["st"] = "paused"
            emit(th, "OHp")
            return True
        return False

    def unwind(th):
        """leave every task and subsystem so that the thread may end"""
        guard = 0
        while (th["ss"] or th["tasks"]) and guard < 200:
            guard += 1
            tt = top_task(th)
            if th["ss"] and th["ss"][-1] != BODY_MARK:
                if tt is not None and tt[1] == "paused" and not bare and r.chance(1, 2):
                    # resume inside the subsystem, like the runtimes do
                    tt[1] = "run"
                    tasks[tt[0]] = "run"
                    emit(th, c + "Tr", m.task_payload(tt[0]))
                    continue
                do_pop(th)
                continue
            # "Task: In body" on top
            if tt is None:
                break
            if tt[1] == "paused":
                if bare:
                    nbare[0] += 1
                    tt[1] = "run"
                    tasks[tt[0]] = "run"
                    emit(th, c + "Tr", m.task_payload(tt[0]))
                else:
                    pair = r.choice([p for p in m.pairs if can_push(th, p)])
                    th["ss"].append(pair[0])
                    emit(th, pair[0])
                    tt[1] = "run"
                    tasks[tt[0]] = "run"
                    emit(th, c + "Tr", m.task_payload(tt[0]))
                    do_pop(th)
                continue
            th["tasks"].pop()
            th["ss"].pop()
            tasks[tt[0]] = "dead"
            emit(th, c + "Te", m.task_payload(tt[0]))

    budget = r.range(10, 90)
    for _ in range(budget * 3):
        if sum(t["n"] for t in ths) >= budget:
            break
        th = r.choice(ths)
        if th["st"] == "new":
            fc = free_cpus()
            if fc and not r.chance(1, 8):
                cpu = r.choice(fc)
            elif r.chance(1, 2):
                cpu = -1
            else:
                continue
            place(th, cpu)
            th["st"] = "run"
            emit(th, "OHx", i32(cpu, th["tid"]) + struct.pack("<Q", 0))
        elif th["st"] == "run":
            step(th)
        elif th["st"] == "paused":
            if r.chance(1, 3):
                if th["cpu"] >= 0 and th["cpu"] in busy:
                    continue
                place(th, th["cpu"])
                th["st"] = "run"
                emit(th, "OHr")
    # finish every thread
    for th in ths:
        if th["st"] == "paused":
            if th["cpu"] >= 0 and th["cpu"] in busy:
                # its CPU is taken: the occupant ends first (below), resume later
                continue
            place(th, th["cpu"])
            th["st"] = "run"
            emit(th, "OHr")
        if th["st"] == "run":
            unwind(th)
            unplace(th)
            th["st"] = "dead"
            emit(th, "OHe")
    for th in ths:
        if th["st"] == "paused":
            place(th, th["cpu"])
            th["st"] = "run"
            emit(th, "OHr")
            unwind(th)
            unplace(th)
            th["st"] = "dead"
            emit(th, "OHe")
    threads = {th["tid"]: th["evs"] for th in ths if th["evs"]}
    return ncpu, threads, desc, nbare[0]


def write_trace(d, m, ncpu, threads, more=()):
    """more: further looms as (loom name, pid, ncpu, threads); their physical CPUs get their own phyids"""
    tr = trace.Trace()
    phy0 = 0
    for (loom, pid, nc, ths) in [("n0", 500, ncpu, threads)] + list(more):
        for tid, evs in ths.items():
            meta = trace.thread_meta(tid, pid, loom, require={"ovni": "1.1.0", m.name: m.version},
                                     cpus=[(i, phy0 + i) for i in range(nc)])
            meta.update(m.meta)
            tr.add_thread(loom, pid, tid, meta, [trace.ev_bytes(mcv, clk, pl, jumbo=jb) for (clk, mcv, pl, jb) in evs])
        phy0 += nc
    tr.write(d)


def read_rows(path):
    """cpu.row -> list of booleans: row k (1-based) is a physical CPU"""
    lines = open(path).read().split("\n")
    phys = []
    on = False
    for ln in lines:
        if ln.startswith("LEVEL THREAD SIZE"):
            on = True
            continue
        if on:
            if not ln.strip():
                break
            phys.append(not ln.strip().startswith("vCPU"))
    return phys


def judge_trace(m, d):
    """Independent decider on the implementation's output.
    -> (verdict, detail) verdict in ok / unsorted / multiset / rowcount"""
    _, bd = trace.parse_prv(os.path.join(d, m.prvfile))
    _, cp = trace.parse_prv(os.path.join(d, "cpu.prv"))
    phys = read_rows(os.path.join(d, "cpu.row"))
    prow = [k + 1 for k, p in enumerate(phys) if p]
    n = len(prow)
    bdrows = {}
    for (t, row, ty, v) in bd:
        if ty == m.t_bd:
            bdrows.setdefault(t, []).append((row, v))
    cprows = {}
    for (t, row, ty, v) in cp:
        if ty in (m.t_type, m.t_ss, m.t_idle):
            cprows.setdefault(t, []).append((row, ty, v))
    times = sorted(set(bdrows) | set(cprows))
    rows = [0] * n
    st = {(row, ty): 0 for row in prow for ty in (m.t_type, m.t_ss, m.t_idle)}
    checked = 0
    for t in times:
        for (row, v) in bdrows.get(t, []):
            if row < 1 or row > n:
                return "rowcount", {"time": t, "row": row, "nphys": n}, checked
            rows[row - 1] = v
        for (row, ty, v) in cprows.get(t, []):
            if (row, ty) in st:
                st[(row, ty)] = v
        per = [spec_bd_value(m.K, st[(row, m.t_type)], st[(row, m.t_ss)], st[(row, m.t_idle)]) if st[(row, m.t_idle)] != 0 else 0
               for row in prow]
        checked += 1
        if any(rows[k] > rows[k + 1] for k in range(n - 1)):
            return "unsorted", {"time": t, "rows": list(rows), "percpu": per}, checked
        if sorted(rows) != sorted(per):
            # is it explained by mux0 keeping a stale selection while "Task: In body" is on top?
            alts = []
            for row, pv in zip(prow, per):
                if st[(row, m.t_ss)] == m.K[0] and st[(row, m.t_idle)] == m.K[2]:
                    alts.append(sorted({pv, 0, m.K[0], st[(row, m.t_type)]}))
                else:
                    alts.append([pv])
            stale = any(sorted(c) == sorted(rows) for c in itertools.product(*alts))
            return ("stale-in-body" if stale else "multiset"), {"time": t, "rows": list(rows), "percpu": per,
                                                                 "cpu_channels(type,ss,idle)": [[st[(row, ty)] for ty in (m.t_type, m.t_ss, m.t_idle)] for row in prow]}, checked
    return "ok", None, checked


def check_e2e(chk, build, m, oracle, ncases):
    wd = trace.workdir("ovni-c20-")
    cases = []
    for k in range(ncases):
        r = chk.rng.fork("e2e-%s-%d" % (m.name, k))
        bare = (k % 4 == 3)
        ncpu, threads, desc, nbare = gen_trace(r, m, bare)
        cs = {"k": k, "bare": bare, "ncpu": ncpu, "threads": threads, "desc": desc, "nbare": nbare}
        if k % 3 == 2:
            # one or two more looms (nodes) with their own process, threads and CPUs: the breakdown rows span the
            # physical CPUs of all looms
            more = []
            for j in range(r.range(1, 2)):
                nc2, th2, desc2, nb2 = gen_trace(r.fork("loom%d" % j), m, bare, tid_base=2000 + 1000 * j)
                if th2:
                    more.append(("n%d" % (j + 1), 501 + j, nc2, th2))
                    cs["desc"] = cs["desc"] + ["loom n%d: " % (j + 1) + x for x in desc2]
                    cs["nbare"] += nb2
            cs["more"] = more
        cases.append(cs)
    # corpus first (corpus/C20/*.json): the history OHx ; VTx ; VTp with its mirror image OHp ; OHr ; VTr for each
    # model (regression cases of the defect repaired by /repo commit bca364a; C20_wiring_refuted_old on the model
    # of the old code), and a clean two-CPU case.  All of them expect verdict ok.
    cdir = os.path.join(common.VERIF, "corpus", "C20")
    corpus = []
    for f in sorted(os.listdir(cdir)) if os.path.isdir(cdir) else []:
        if not f.endswith(".json"):
            continue
        cj = json.load(open(os.path.join(cdir, f)))
        if cj.get("model") != m.name:
            continue
        threads = {int(tid): [(e[0], e[1], bytes.fromhex(e[2]), bytes.fromhex(e[3]) if e[3] is not None else None) for e in evs]
                   for tid, evs in cj["threads"].items()}
        desc = sorted("%d %d %s" % (e[0], tid, e[1]) for tid, evs in threads.items() for e in evs)
        desc.sort(key=lambda x: int(x.split()[0]))
        corpus.append({"k": "corpus-" + cj["name"], "bare": cj.get("bare", False), "ncpu": cj["ncpu"], "threads": threads,
                       "desc": desc, "nbare": cj.get("nbare", 0), "expect": cj.get("expect", "ok")})
    chk.count("e2e-%s:corpus-cases" % m.name, len(corpus))
    cases = corpus + cases
    try:
        def run_case(cs):
            d = os.path.join(wd, "%s-%s" % (m.name, cs["k"]))
            write_trace(d, m, cs["ncpu"], cs["threads"], cs.get("more", ()))
            rc, o, e = trace.run_tool(build, "ovniemu", ["-b"], d)
            res = None
            if rc == 0:
                try:
                    res = judge_trace(m, d)
                except Exception as ex:      # unreadable output is a finding of its own kind below
                    res = ("unreadable", {"exception": repr(ex)}, 0)
            shutil.rmtree(d, ignore_errors=True)
            return rc, e[-1500:], res
        results = trace.pmap(run_case, cases)
    finally:
        shutil.rmtree(wd, ignore_errors=True)
    srows = []
    for cs, (rc, err, res) in zip(cases, results):
        chk.case(("E", m.name, cs["k"], len(cs["desc"])))
        cls = "bare-pause" if cs["bare"] else "api-pause"
        if rc != 0:
            chk.count("e2e-%s:%s:rejected-by-ovniemu" % (m.name, cls))
            chk.coverage.setdefault("e2e_rejected_examples", [])
            if len(chk.coverage["e2e_rejected_examples"]) < 3:
                chk.coverage["e2e_rejected_examples"].append({"model": m.name, "stderr": err[-400:], "events": cs["desc"][-6:]})
            if cs.get("expect") == "ok":
                chk.violation("corpus:%s:rejected" % cs["k"],
                              "ovniemu -b rejects the corpus trace %s (%s), expected rows = sorted per-CPU values: %s" % (cs["k"], m.name, err[-300:]),
                              {"model": m.name, "ncpu": cs["ncpu"], "events(clock tid mcv)": cs["desc"], "stderr": err[-600:]})
            continue
        verdict, detail, nchecked = res
        chk.count("e2e-%s:%s:%s" % (m.name, cls, verdict))
        chk.count("e2e-%s:instants-checked" % m.name, nchecked)
        if cs["nbare"]:
            chk.count("e2e-%s:traces-with-task-pause-in-body" % m.name)
        chk.count("e2e-%s:looms:%d" % (m.name, 1 + len(cs.get("more", ()))))
        replay = {"model": m.name, "ncpu": cs["ncpu"], "how": "write the events below as an ovni trace (one stream per tid, pid 500, loom n0, "
                  "%d physical CPUs, require %s %s; further looms n1.. with pid 501.. as listed) and run `ovniemu -b`; compare %s with cpu.prv" % (cs["ncpu"], m.name, m.version, m.prvfile),
                  "more_looms(name pid ncpu tids)": [(l, p_, nc, sorted(t)) for (l, p_, nc, t) in cs.get("more", ())],
                  "events(clock tid mcv)": cs["desc"], "detail": detail}
        if verdict == "ok":
            continue
        if verdict == "stale-in-body" and cs["nbare"] > 0:
            # the defect repaired by /repo commit bca364a (same key as the former known finding, one report per model)
            chk.violation("%s-task-pause-in-body" % m.name,
                          "%s breakdown rows at time %s are %s but the per-CPU values are %s: a task paused/resumed while 'Task: In body' is the "
                          "top subsystem (as test/emu/nosv/pause.c does) leaves mux0 on a stale input, the row shows 0 (or keeps 'In body') instead "
                          "of select_tr's value. This is the defect repaired by /repo commit bca364a (mux_add_reselect on the task type channel; "
                          "Coq, model of the old code: C20_wiring_refuted_old, C20_wiring_history_dependent_refuted_old)" % (
                              m.name, detail.get("time"), detail.get("rows"), detail.get("percpu")), replay)
            continue
        h = hashlib.md5("\n".join(cs["desc"]).encode()).hexdigest()[:12]
        chk.violation("e2e-%s:%s:%s" % (m.name, verdict, h),
                      "%s breakdown rows at time %s are %s but the per-CPU values are %s (%s)" % (
                          m.name, detail.get("time"), detail.get("rows"), detail.get("percpu"), verdict), replay)
    if cases:
        j = min(len(cases) - 1, len(corpus))
        chk.sample({"op": "ovniemu -b (%s)" % m.name, "events": cases[j]["desc"][:12],
                    "verdict": results[j][2][0] if results[j][2] else "rejected"})


# ------------------------------------------------------------------ driver

def run(chk):
    chk.trusted_base = common.BASE_TRUST + [
        "translate/units/_cmp.py + translate/c2gallina.py (clang JSON AST): the comparison part of the C comparators (sort.c cmp_int64) is translated to Gallina on every run, the statements that fetch the compared integers are pinned as normalised source text, not translated",
        "hand model coq/Emu/SortDefs.v of sort_replace and the sort module; its two-mux breakdown pipeline is proved to be an instance of the bay model (the wiring coq/Emu/BayBreakdownDefs.v; C20_pipeline_is_bay_instance), so the worklist is not modelled twice; "
        "validated each run against the compiled src/emu/sort.c, bay.c, chan.c, mux.c and the static connect_cpu/select_tr/select_idle "
        "of {nosv,nanos6}/breakdown.c (harness/sort_h.c #includes breakdown.c)",
        "translate/units/sortc.py + _stagec.py: sort_replace / sort_cb_input / sort_init translated to Gallina on every run (prelude coq/Emu/SortCPre.v: "
        "arrays as lists with trapping accesses, bounded for_while, qsort = isort, chan_read / chan_set on the outputs); translate/units/connect.py: "
        "create_cpu / connect_cpu of nosv/breakdown.c (prelude coq/Emu/ConnectPre.v; select_tr / select_idle, sort_set_input and the calling loops are hand-rendered)",
        "glibc qsort sorts int64_t correctly (first callback of the sort module: memcpy + qsort); modelled as insertion sort",
        "the emulator above the CPU channels (thread/CPU tracking muxes, event handlers) is not modelled: the order in which one event "
        "dirties the CPU channels (task type, subsystem before idle; model_cpu.c connects in enum order) is read from the source and "
        "exercised end to end by ovniemu -b on generated traces, not proved",
        "extraction (ExtrOcamlBasic only) + OCaml 4.13 + oracle/sortmod_drv.ml",
        "lib/vf/trace.py trace writer and PRV parser; cpu.prv of the same run is taken as the per-CPU channel values",
    ]
    chk.assumptions = ["sort inputs are null (or read as 0) when connected, as breakdown.tri is",
                       "values compared as int64_t; null and double inputs read as 0 (sort_cb_input)",
                       "each CPU channel is written at most once per event"]
    proved = chk.translate_and_prove(["cmp_sortmod", "sortc", "tables", "pv", "connect", "bayc", "muxc"])

    build = common.repo_build("hook")
    hdir = os.path.join(common.BUILD, "harness")
    src = os.path.join(common.VERIF, "harness", "sort_h.c")
    hx = os.path.join(hdir, "sort_h-" + build.tree)
    hx6 = os.path.join(hdir, "sort_h6-" + build.tree)
    sig = hashlib.sha256(open(src, "rb").read()).hexdigest()[:16]
    stamp = os.path.join(hdir, "sort_h-" + build.tree + ".sig")
    if not (os.path.exists(hx) and os.path.exists(hx6) and os.path.exists(stamp) and open(stamp).read() == sig):
        if os.path.isdir(hdir):
            for f in os.listdir(hdir):
                if f.startswith("sort_h-") or f.startswith("sort_h6-"):
                    os.remove(os.path.join(hdir, f))
        common.cc_harness(hx, [src], build, extra=build.libs_emu + ["-lm"])
        common.cc_harness(hx6, [src], build, extra=["-DC20_NANOS6"] + build.libs_emu + ["-lm"])
        open(stamp, "w").write(sig)

    oracle = None
    try:
        oracle = common.build_oracle("sortmod", "Extract_sortmod", "sortmod_drv.ml", "sortmod_x")
    except Exception as e:
        chk.notes.append("oracle unavailable: %r" % (e,))
        if not getattr(chk, "proof_broken", None):
            chk.proof_broken = {"kind": "extraction", "error": repr(e)[:500]}

    corr_broken = []
    Kv = tuple(int(x) for x in common.batch(hx, ["K"])[0].split()[1:])
    K6 = tuple(int(x) for x in common.batch(hx6, ["K"])[0].split()[1:])
    chk.coverage["constants_from_source"] = {"nosv(body,unknown,progressing)": list(Kv), "nanos6(body,unknown,progressing)": list(K6)}
    if Kv != (11, 2, 100):
        chk.notes.append("nOS-V constants differ from those of the Coq witnesses (11 2 100): %r" % (Kv,))

    check_replace(chk, hx, oracle, corr_broken)
    check_module(chk, hx, oracle, corr_broken)
    check_wiring(chk, "nosv", hx, oracle, Kv, corr_broken)
    check_wiring(chk, "nanos6", hx6, oracle, K6, corr_broken)
    replay_witnesses_inprocess(chk, "nosv", hx, oracle, Kv, corr_broken)
    replay_witnesses_inprocess(chk, "nanos6", hx6, oracle, K6, corr_broken)

    emu_src = os.path.join(common.REPO, "src", "emu")
    check_e2e(chk, build, model_nosv(Kv, emu_src), oracle, chk.budget(500, 20000))
    check_e2e(chk, build, model_nanos6(K6, emu_src), oracle, chk.budget(300, 12000))

    if corr_broken:
        chk.coverage["correspondence_disagreements"] = [repr(x)[:400] for x in corr_broken[:10]]
        if not chk.violations:
            chk.violation("broken-correspondence",
                          "model and implementation disagree on %d inputs, none of which violates the property's spec" % len(corr_broken),
                          {"correspondence": "sort/breakdown model vs compiled C", "disagreements": [repr(x)[:400] for x in corr_broken[:20]]},
                          found_input=False)
    chk.coverage["rule"] = ("sort_replace: exhaustive sorted arrays n<=5 over 0..4 x every present old x new in -1..5, random n<=64 over tie-heavy "
                            "domains incl. int64 extremes, aimed at the n/2 jump; sort module: all single-change histories (n=1 L=5, n=2 L=4, n=3 L=3/4) "
                            "over {null,0,1,2} + all two-change batches + random n<=64; wiring: every ordered batch over small value sets after the "
                            "first event (pairs of batches in thorough) + random emulator-like sequences; e2e: random valid traces, 3/4 with task "
                            "pause/resume only inside another subsystem, 1/4 also with 'Task: In body' on top; non-trivial = distinct input")
