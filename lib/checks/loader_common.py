"""Shared by the C12 and C19 checks (engine `loader`): generator of valid traces, an independent
structural validator of stream.obs bytes, mutation operators, and judged runs of the real tools."""
import json
import os
import re
import shutil
import struct
import subprocess

from vf import common, trace

HDR = trace.STREAM_HEADER
I64 = 1 << 63


# ---------------------------------------------------------------- models of the source tree

def models_of(build):
    """[(id, name, version)] as registered by the emulator built from the tree (harness/modeldump.c)."""
    md = os.path.join(common.BUILD, "harness", "modeldump-" + build.tree)
    if not os.path.exists(md):
        common.cc_harness(md, [os.path.join(common.VERIF, "harness", "modeldump.c")], build, extra=build.libs_emu)
    rc, out, err = common.run([md])
    res = []
    for line in out.strip().split("\n"):
        mid, name, ver = line.split()
        res.append((int(mid), name, ver))
    return res


def keep_build(build):
    """The build cache under build/ is shared with the other checks and pruned LRU by directory mtime:
    refresh ours while a long campaign uses it, and rebuild it if it was evicted meanwhile."""
    try:
        os.utime(build.path, None)
    except OSError:
        pass
    if not os.path.exists(build.tool("ovniemu")):
        return common.repo_build(build.variant)
    return build


def loader_oracle():
    """extracted model + driver; re-extract when the generated OCaml is gone although the .vo is up to date"""
    if not os.path.exists(os.path.join(common.COQ, "loader_x.ml")):
        for ext in (".vo", ".vos", ".vok", ".glob"):
            try:
                os.remove(os.path.join(common.COQ, "Extract", "Extract_loader" + ext))
            except OSError:
                pass
    return common.build_oracle("loader", "Extract_loader", "loader_drv.ml", "loader_x")


def loader_harness(build):
    src = os.path.join(common.VERIF, "harness", "loader_h.c")
    hx = os.path.join(common.BUILD, "harness", "loader_h-%s-%s" % (build.tree, common.hashlib.md5(open(src, "rb").read()).hexdigest()[:8]))
    if not os.path.exists(hx):
        d = os.path.dirname(hx)
        if os.path.isdir(d):
            import time
            for f in os.listdir(d):
                # other trees' harnesses may be in use by a concurrent run: only drop old ones
                fp = os.path.join(d, f)
                if f.startswith("loader_h-") and time.time() - os.path.getmtime(fp) > 3 * 3600:
                    os.remove(fp)
        common.cc_harness(hx, [os.path.join(common.VERIF, "harness", "loader_h.c")], build, extra=build.libs_emu)
    return hx


# ---------------------------------------------------------------- independent validator

def validate_obs(data, sorted_required=True):
    """Format of a stream.obs, stated independently of the Coq model: -> (ok, events, reason).
    events: trace.parse_obs dicts.  Event sizes above 2^31-1 are not events."""
    ok, evs, why = trace.parse_obs(data)
    if not ok:
        return False, evs, why
    last = 0
    for e in evs:
        if e["size"] > 0x7FFFFFFF:
            return False, evs, "event too large"
        c = e["clock"] if e["clock"] < I64 else e["clock"] - (1 << 64)
        if sorted_required and c < last:
            return False, evs, "clock backwards at %d" % e["off"]
        last = c
    return True, evs, None


def evs_signature(evs):
    out = []
    for e in evs:
        c = e["clock"] if e["clock"] < I64 else e["clock"] - (1 << 64)
        out.append("%d:%d:%d" % (e["off"], e["size"], c))
    return ",".join(out) if out else "-"


# ---------------------------------------------------------------- valid trace generator

MARKS = {"1": {"title": "single mark", "chan_type": "single"},
         "2": {"title": "stack mark", "chan_type": "stack", "labels": {"3": "three"}}}


def gen_trace(rng, models, small=False):
    """A valid trace: 1-3 threads in one loom, each OHx ... OHe with flush markers, sort regions, bursts,
    pause/resume, affinity changes, marks and (when nosv is required) jumbo task-type creations.
    -> list of thread dicts {loom,pid,tid,meta,events:[(mcv, clock, payload, jumbo)]}"""
    ver = {name: v for (_, name, v) in models}
    nth = rng.range(1, 3)
    two_procs = nth >= 2 and rng.chance(1, 3)
    threads = []
    ncpus = 2 * nth
    type_id = {}
    ranked = rng.chance(1, 2)      # MPI ranks: every thread of a process carries its rank and the number of ranks
    for i in range(nth):
        pid = 200 if (two_procs and i == nth - 1) else 100
        tid = 1000 + i
        use_nosv = "nosv" in ver and rng.chance(1, 2)
        use_marks = rng.chance(1, 2)
        require = {"ovni": ver.get("ovni", "1.0.0")}
        if use_nosv:
            require["nosv"] = ver["nosv"]
        meta = trace.thread_meta(tid, pid, "n0", app_id=1 if pid == 100 else 2, require=require,
                                 cpus=[(k, k) for k in range(ncpus)])
        if use_marks:
            meta["ovni"]["mark"] = json.loads(json.dumps(MARKS))
        if ranked:
            meta["ovni"]["rank"] = 0 if pid == 100 else 1
            meta["ovni"]["nranks"] = 2
        clock = 1000 + rng.below(50)
        evs = []

        def emit(mcv, payload=b"", jumbo=None, step=None):
            nonlocal clock
            clock += rng.range(1, 40) if step is None else step
            evs.append((mcv, clock, payload, jumbo))

        cpu = 2 * i
        emit("OHx", struct.pack("<iiI", cpu, tid, 0))
        nbody = rng.range(1, 3) if small else rng.range(2, 9)
        stack_depth = 0
        for _ in range(nbody):
            k = rng.below(9)
            if k == 0:
                emit("OF["); emit("OF]")
            elif k == 1:
                emit("OU["); emit("OB."); emit("OU]")
            elif k == 2:
                emit("OB.", step=rng.below(3))
            elif k == 3:
                emit("OHp"); emit("OHr")
            elif k == 4:
                emit("OHc"); emit("OHp"); emit("OHw"); emit("OHr")
            elif k == 5:
                cpu = 2 * i + (1 - (cpu - 2 * i))
                emit("OAs", struct.pack("<i", cpu))
            elif k == 6 and use_marks:
                emit("OM=", struct.pack("<qi", rng.range(1, 9), 1))
            elif k == 7 and use_marks:
                emit("OM[", struct.pack("<qi", 3, 2)); stack_depth += 1
                if rng.chance(1, 2):
                    emit("OM]", struct.pack("<qi", 3, 2)); stack_depth -= 1
            elif k == 8 and use_nosv:
                t = type_id.get(pid, 0) + 1
                type_id[pid] = t
                emit("VYc", jumbo=struct.pack("<I", t) + ("type%d" % t).encode() + b"\0")
            else:
                emit("OB.")
        while stack_depth > 0:
            emit("OM]", struct.pack("<qi", 3, 2)); stack_depth -= 1
        emit("OHe")
        threads.append({"loom": "n0", "pid": pid, "tid": tid, "meta": meta, "events": evs})
    return threads


def enc_event(ev):
    mcv, clock, payload, jumbo = ev
    return trace.ev_bytes(mcv, clock, payload, jumbo)


def obs_of(thread):
    return HDR + b"".join(enc_event(e) for e in thread["events"])


def write_threads(root, threads, obs_override=None, meta_override=None):
    """obs_override / meta_override: {thread index: bytes} (meta bytes written verbatim; None = no file)"""
    tr = trace.Trace()
    for i, t in enumerate(threads):
        obs = obs_override[i] if obs_override and i in obs_override else obs_of(t)
        meta = t["meta"]
        if meta_override and i in meta_override:
            meta = meta_override[i]
        tr.add_thread(t["loom"], t["pid"], t["tid"], meta, obs=obs)
    tr.write(root)
    if meta_override:
        for i, t in enumerate(threads):
            if i in meta_override and meta_override[i] is None:
                p = os.path.join(root, "loom.%s" % t["loom"], "proc.%d" % t["pid"], "thread.%d" % t["tid"], "stream.json")
                if os.path.exists(p):
                    os.remove(p)
    return root


# ---------------------------------------------------------------- judged runs of the real tools

SAN_RE = re.compile(r"(ERROR: AddressSanitizer|runtime error:|ERROR: LeakSanitizer|AddressSanitizer:DEADLYSIGNAL|"
                    r"UndefinedBehaviorSanitizer)")
FRAME_RE = re.compile(r"#\d+ 0x[0-9a-f]+ in (\S+) (\S+)")


def san_signature(err):
    """stable signature of a sanitizer report: kind + first frame inside the repo's sources"""
    kind = None
    m = re.search(r"ERROR: AddressSanitizer: (\S+)", err)
    if m:
        kind = "asan-" + m.group(1)
    fn = None
    m2 = re.search(r"(\S+?):(\d+):(\d+): runtime error: ([^\n]*)", err)
    if m2 and kind is None:
        what = re.sub(r"[^a-z ]", "", m2.group(4).lower()).split()
        kind = "ubsan-" + "-".join(what[:3])
        fn = os.path.basename(m2.group(1))
    for fm in FRAME_RE.finditer(err):
        f, loc = fm.group(1), fm.group(2)
        if "/src/" in loc and "sanitizer" not in loc:
            fn = f
            break
    return "%s:%s" % (kind or "sanitizer", fn or "unknown")


def fatal_function(err):
    m = None
    for m in re.finditer(r"(?:FATAL|ERROR): (\w+):", err):
        pass
    last_fatal = None
    for fm in re.finditer(r"FATAL: (\w+):", err):
        last_fatal = fm.group(1)
    return last_fatal


def judge(rc, out, err):
    """C19 spec decider on one run of a tool: None if clean, else (class, signature)."""
    if rc == "timeout":
        return ("hang", "timeout")
    if SAN_RE.search(err or ""):
        return ("sanitizer", san_signature(err))
    if isinstance(rc, int) and rc < 0:
        return ("signal", "sig%d:%s" % (-rc, fatal_function(err or "") or "nofatal"))
    if rc not in (0, 1):
        return ("status", "exit%s" % rc)
    return None


def run_judged(build, tool, args, d, heapbuf=True, timeout=10):
    env = {"ASAN_OPTIONS": "detect_leaks=0:abort_on_error=0:allocator_may_return_null=1", "UBSAN_OPTIONS": "print_stacktrace=1"}
    if heapbuf:
        env["OVNI_VERIF_HEAPBUF"] = "1"
    rc, out, err = trace.run_tool(build, tool, args, d, timeout=timeout, env=env)
    return rc, out, err, judge(rc, out, err)


def files_of(d, limit=4096):
    """hex of every stream file under d (for replays)"""
    res = {}
    for r, dn, fn in os.walk(d):
        for f in fn:
            if f in ("stream.obs", "stream.json"):
                p = os.path.join(r, f)
                b = open(p, "rb").read()
                rel = os.path.relpath(p, d)
                res[rel] = {"hex": b[:limit].hex(), "len": len(b)}
    return res


def save_corpus_case(prop, name, files):
    """used by hand when minimising, never at check time"""
    d = os.path.join(common.VERIF, "corpus", prop, name)
    os.makedirs(d, exist_ok=True)
    for rel, content in files.items():
        p = os.path.join(d, rel)
        os.makedirs(os.path.dirname(p), exist_ok=True)
        open(p, "wb").write(content)


def load_corpus(prop):
    """corpus/<prop>/<case>/...stream.obs|stream.json  -> [(name, dir)]"""
    base = os.path.join(common.VERIF, "corpus", prop)
    res = []
    if os.path.isdir(base):
        for n in sorted(os.listdir(base)):
            p = os.path.join(base, n)
            if os.path.isdir(p):
                res.append((n, p))
    return res
