"""C09 - crash consistency: a killed run is never accepted with flushed events missing; a stream is
marked finished only after all its flushed bytes are in their final place (direct and OVNI_TMPDIR modes).

proof (partial): Coq theorems about the rtfs model (coq/Rt/RtFsDefs.v) for every program, crash point, readdir
order and stdio buffer size; the model is tied to the code by (1) the call trace of LOG-mode runs of the real
libovni under the shim and (2) the tree left by SIGKILL before EVERY call of small programs; the real ovniemu and an
independent Python decider judge the implementation."""
import glob
import json
import os
import shutil

from vf import common, trace
from . import rtfs_lib as R

LEVEL = "proof"


def case_list(chk):
    quick = [
        [(5, 0, 0, 0, 0)],
        [(5, 1, 1, 0, 0)],
        [(5, 3, 1, 0, 0)],
        [(5, 2, 1, 0, 0), (6, 1, 0, 0, 0)],
        [(5, 1, 0, 4096, 1)],
    ]
    thorough = quick + [
        [(5, 2, 0, 0, 0)],
        [(5, 3, 2, 0, 2)],
        [(7, 1, 3, 0, 0), (8, 0, 0, 0, 0)],
        [(5, 3, 1, 0, 0), (6, 2, 2, 0, 0)],
        [(5, 1, 0, 8192, 1)],
        [(5, 2, 0, 4096, 0)],
        [(5, 1, 40, 0, 0), (6, 1, 0, 4096, 2)],
        [(11, 1, 0, 0, 0), (12, 1, 1, 0, 0), (13, 2, 0, 0, 0)],
    ]
    progs = thorough if chk.tier == "thorough" else quick
    cases = []
    for mode in ("direct", "tmp"):
        for order in (("native", "sorted", "reverse") if mode == "tmp" else ("native",)):
            for th in progs:
                cases.append({"mode": mode, "order": order, "threads": [list(t) for t in th]})
    return cases


def corpus_cases():
    out = []
    for f in sorted(glob.glob(os.path.join(common.VERIF, "corpus", "C09", "*.json"))):
        j = json.load(open(f))
        c = j["case"]
        c["corpus"] = os.path.basename(f)
        out.append(c)
    return out


def ckey(case):
    return (case["mode"], case["order"], tuple(tuple(t) for t in case["threads"]))


def pick_variant(oracle, case, ref):
    """which relocation variant of the model does this implementation follow? returns (variant or None, order string, detail)"""
    if case["order"] == "native":
        per = R.order_string(case, ref["log"])
        ords = ",".join(per) if per else "dDjo"
    else:
        ords = R.FORCED[case["order"]]
    impl = ["%s %s %d %d" % (l["kind"], l["path"], l["size"], l["res"]) for l in ref["log"]]
    thr = R.model_threads(case, ref["log"])
    detail = None
    for v in ("new", "old"):
        ans = common.batch(oracle, ["T %s %s %d %s %s" % (v, case["mode"], R.BUFSZ, ords, thr)])[0]
        mod = ans.split(";") if ans else []
        if mod == impl:
            return v, ords, None
        if v == "new":
            k = 0
            while k < min(len(mod), len(impl)) and mod[k] == impl[k]:
                k += 1
            detail = {"first_difference_at_call": k + 1, "model": mod[k] if k < len(mod) else "<end>",
                      "implementation": impl[k] if k < len(impl) else "<end>", "model_calls": len(mod), "implementation_calls": len(impl)}
    return None, ords, detail


def run(chk):
    chk.trusted_base = common.BASE_TRUST + [
        "hand model coq/Rt/RtFsDefs.v of ovni.c's file handling (proc/thread init, flush, thread_free, relocation, proc_fini) and mkpath; "
        "tied per run by comparing the libc-call trace of the real libovni (LD_PRELOAD shim harness/rtfs_shim.c, driver harness/rtfs_prog.c) "
        "with the model's trace, and the tree after SIGKILL before every call with the model's prefix state",
        "kernel/file-system semantics (a completed write() survives SIGKILL; O_CREAT/unlink/rmdir/readdir as POSIX) are assumptions of the model, sampled by the kill runs",
        "glibc stdio buffering (4096-byte buffer written when it overflows and at fclose, lost on SIGKILL) is an assumption; the theorems hold for every buffer size",
        "parson is abstracted: stream.json parses iff complete, 'finished' is one marker; the emulator side is the necessary condition emu_ok (json parses, finished, header, event tiling), the real ovniemu is run on every tree",
        "translate/units/rtfs.py: copy_thread_to_final, move_thdir_step, move_thdir_to_final, try_clean_dir and write_evbuf of src/rt/ovni.c are rendered on every run into coq/Gen/RtFs_gen.v as syntax trees (statements in C order, loops, break/continue, assignments in conditions, && / ||); their meaning is the hand-written interpreter coq/Rt/RtFsPre.v (a store for locals, every libc call a primitive that logs the RtFsDefs.op and takes its result from the environment: one injected fault, file contents in 1024-byte freads, readdir orders); coq/Proofs/RtFsGenProofs.v ties the calls, diagnostics and aborts of the interpreted code to RtFsDefs' instruction lists; clang's AST and the Python printer are trusted",
        "extraction (ExtrOcamlBasic only) + OCaml 4.13 + oracle/rtfs_drv.ml",
        "power loss / durability (fsync) is out of scope: the property says the process is killed",
    ]
    chk.assumptions = ["the trace directories do not exist before the run and nobody else writes into them",
                       "distinct threads use distinct thread ids (their paths are disjoint); the model composes threads sequentially, concurrent runs are only compared per thread",
                       "a single SIGKILL of the whole process; no I/O error in the same run (that is C10)"]
    chk.translate_and_prove(["rtfs"])

    build = common.repo_build("hook")
    tl = R.tools(build)
    oracle = None
    try:
        oracle = common.build_oracle("rtfs", "Extract_rtfs", "rtfs_drv.ml", "rtfs_x")
    except Exception as e:
        chk.notes.append("oracle unavailable: %r" % (e,))
        if not getattr(chk, "proof_broken", None):
            chk.proof_broken = {"kind": "extraction", "error": repr(e)[:500]}

    corr_broken = []
    seen = set()
    cases = []
    for c in corpus_cases() + case_list(chk):
        if ckey(c) not in seen:
            seen.add(ckey(c))
            cases.append(c)
    wd = trace.workdir()
    nkill = 0
    variants = {}
    first = {}
    try:
        for ci, case in enumerate(cases):
            cd = os.path.join(wd, "c%d" % ci)
            ref = R.run_prog(tl, os.path.join(cd, "ref"), case)
            if ref["rc"] != 0:
                chk.violation("driver-failed:%s" % (case["mode"],), "the driver program fails on a healthy file system: rc=%s %s" % (ref["rc"], ref["err"][-300:]),
                              {"case": case}, found_input=True)
                continue
            rfiles, rdirs = R.snapshot(os.path.join(cd, "ref"))
            total = {t[0]: len(R.flushed_from_log(ref["log"]).get(t[0], b"")) for t in case["threads"]}
            M = len(ref["log"])
            variant, ords = None, None
            if oracle:
                variant, ords, detail = pick_variant(oracle, case, ref)
                variants[str(variant)] = variants.get(str(variant), 0) + 1
                chk.case(("T", ckey(case)))
                if variant is None:
                    corr_broken.append({"what": "call trace differs from the model", "case": case, "detail": detail})
                elif variant == "old":
                    corr_broken.append({"what": "call trace is the one of the unrepaired relocation (model variant Old, for which C09_tmpdir_s2 is refuted)", "case": case})
            chk.count("mode:%s" % case["mode"])
            chk.count("threads:%d" % len(case["threads"]))

            def kill(n, case=case, cd=cd, variant=variant, ords=ords, ref=ref, total=total):
                d = os.path.join(cd, "k%d" % n)
                r = R.run_prog(tl, d, case, kill_at=n)
                files, dirs = R.snapshot(d)
                emu = {}
                for loc in (R.FIN, R.TMP):
                    emu[loc] = R.emu_verdict(build, d, loc)[0]
                bad = R.decide_c09(case, r["log"], files, emu)
                # finished in the final directory => the stream there is all the thread ever writes
                for t in case["threads"]:
                    td = R.thread_dir(R.FIN, t[0])
                    if R.json_state(files.get(td + "/stream.json")) == "finished" and len(files.get(td + "/stream.obs", b"")) != total[t[0]]:
                        if not any(b[0] == "s2" and b[2] == t[0] for b in bad):
                            bad.append(("s2", R.FIN, t[0], "thread.%d is marked finished in the final directory with %d of the %d bytes the thread writes"
                                        % (t[0], len(files.get(td + "/stream.obs", b"")), total[t[0]])))
                model = None
                if oracle and variant:
                    q = "K %s %s %d %s %s %d" % (variant, case["mode"], R.BUFSZ, ords, R.model_threads(case, ref["log"], r["log"]), n - 1)
                    model = R.parse_model_answer(common.batch(oracle, [q])[0])
                shutil.rmtree(d, ignore_errors=True)
                return n, r, files, dirs, emu, bad, model

            res = trace.pmap(kill, range(1, M + 2))
            for n, r, files, dirs, emu, bad, model in res:
                nkill += 1
                at = ref["log"][n - 1] if n <= M else {"kind": "exit", "path": "-"}
                chk.case(("K", ckey(case), n))
                chk.count("kill-before:%s" % at["kind"])
                chk.count("emu-final:%s" % ("accepts" if emu[R.FIN] == 0 else "rejects" if emu[R.FIN] is not None else "no-dir"))
                if n <= M and r["rc"] != -9:
                    corr_broken.append({"what": "run with KILL_AT=%d ended with %s instead of SIGKILL" % (n, r["rc"]), "case": case})
                for (sent, loc, tid, text) in bad:
                    key = "%s:%s:%s" % ({"s1": "s1-accepted-with-flushed-events-missing", "s2": "s2-finished-before-data-in-place"}[sent],
                                        "tmpdir" if case["mode"] == "tmp" else "direct", "final" if loc == R.FIN else "temporary")
                    if key not in first:
                        first[key] = 1
                        chk.violation(key, text + " [%s mode, readdir order %s, killed before call %d: %s %s]"
                                      % (case["mode"], case["order"], n, at["kind"], at["path"]),
                                      {"program": R.case_args(case), "mode": case["mode"], "readdir_order": case["order"], "kill_at": n,
                                       "next_call": "%s %s" % (at["kind"], at["path"]), "thread": tid, "emulator_exit": {k: v for k, v in emu.items()},
                                       "tree": R.tree_lines(files, dirs), "model_variant_matched": variant,
                                       "theorem": "C09_tmpdir_s2_refuted_old / C09_tmpdir_s1_refuted_old (Proofs/RtFsProofs.v, section old)",
                                       "how": "harness/rtfs_prog.c under LD_PRELOAD=rtfs_shim.so with RTFS_KILL_AT=%d RTFS_READDIR_ORDER=%s" % (n, case["order"])})
                    else:
                        first[key] += 1
                if model is not None:
                    mtree, memu, mspec = model[0].split(";") if model[0] else [], model[1].split(), model[2].split()
                    itree = R.tree_lines(files, dirs)
                    if sorted(mtree) != sorted(itree):
                        corr_broken.append({"what": "tree after kill differs from the model's prefix state", "case": case, "kill_at": n,
                                            "only_model": sorted(set(mtree) - set(itree))[:6], "only_impl": sorted(set(itree) - set(mtree))[:6]})
                    for loc, me in ((R.FIN, memu[0]), (R.TMP, memu[1])):
                        if emu[loc] == 0 and me != "1":
                            corr_broken.append({"what": "ovniemu accepts a tree on which the model's emu_ok (a necessary condition) is false", "case": case, "kill_at": n, "loc": loc})
                    if mspec != ["1", "1", "1"] and not bad:
                        corr_broken.append({"what": "the extracted Coq spec deciders flag the model tree (%s) but the implementation decider does not" % mspec, "case": case, "kill_at": n})
                    if n in (1, M // 2, M):
                        chk.sample({"program": R.case_args(case), "mode": case["mode"], "order": case["order"], "kill_before_call": n,
                                    "next_call": "%s %s" % (at["kind"], at["path"]), "ovniemu_final": emu[R.FIN], "tree": itree[:8],
                                    "model_emu_ok": memu, "model_spec": mspec}, limit=5)
            shutil.rmtree(cd, ignore_errors=True)

        # concurrent threads: per-thread projection of the call trace against the model's
        if oracle:
            for th in ([(5, 1, 1, 0, 0), (6, 2, 0, 0, 0)], [(5, 2, 1, 0, 0), (6, 1, 0, 0, 0), (7, 3, 0, 0, 0)]):
                for mode in ("direct", "tmp"):
                    case = {"mode": mode, "order": "sorted", "threads": [list(t) for t in th], "conc": True}
                    d = os.path.join(wd, "conc")
                    ref = R.run_prog(tl, d, case)
                    shutil.rmtree(d, ignore_errors=True)
                    chk.case(("P", ckey(case)))
                    chk.count("concurrent-runs")
                    if ref["rc"] != 0:
                        corr_broken.append({"what": "concurrent driver run failed", "case": case, "rc": ref["rc"]})
                        continue
                    v = "old" if variants.get("old") else "new"
                    ans = common.batch(oracle, ["T %s %s %d %s %s" % (v, mode, R.BUFSZ, R.FORCED["sorted"], R.model_threads(case, ref["log"]))])[0].split(";")
                    for t in th:
                        pat = "/thread.%d" % t[0]
                        a = [x for x in ans if pat in x.split(" ")[1] and not x.startswith("mkdir")]
                        b = ["%s %s %d %d" % (l["kind"], l["path"], l["size"], l["res"]) for l in ref["log"] if pat in l["path"] and l["kind"] != "mkdir"]
                        if a != b:
                            corr_broken.append({"what": "per-thread call trace of a concurrent run differs from the model", "case": case, "thread": t[0]})
    finally:
        shutil.rmtree(wd, ignore_errors=True)

    chk.coverage["crash_points"] = nkill
    chk.coverage["model_variant_matched"] = variants
    chk.coverage["violating_crash_points"] = dict(first)
    chk.coverage["traces_validated_against_impl"] = len(cases)
    if corr_broken:
        chk.coverage["correspondence_disagreements"] = [json.dumps(x, default=str)[:400] for x in corr_broken[:10]]
        if not chk.violations and not chk.known_hits:
            chk.violation("broken-correspondence", "rtfs model and implementation disagree on %d points, none of which violates the property's spec" % len(corr_broken),
                          {"correspondence": "rtfs model vs libovni under the shim", "disagreements": [json.dumps(x, default=str)[:600] for x in corr_broken[:20]]},
                          found_input=False)
    chk.coverage["exhaustive"] = False
    chk.coverage["rule"] = ("programs: 1-3 threads x 0-3 ovni_flush (some aligned so that OHe ends on a stdio buffer boundary) x {direct, OVNI_TMPDIR} x "
                            "readdir order {native, sorted, reverse}; for each, SIGKILL before EVERY intercepted libc call (and after the last); "
                            "a case = (program, mode, order, kill index); all are distinct")
