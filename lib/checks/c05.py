"""C05 - CPU occupancy: one running thread per physical CPU; CPU rows mirror threads."""
from vf import common, emucheck, emucore, gen_hist

LEVEL = "proof"


def run(chk):
    build, oracle, tables = emucheck.setup(chk, extra_units=("guards", "chan", "sys"))
    chk.assumptions = ["a remote affinity change to the CPU the thread is already on is refused by the emulator; the property does not "
                       "say, so the decider demands nothing for it", "distinct clocks per event"]
    rng = chk.rng
    scs = []
    for i in range(chk.budget(700, 8000)):
        r = rng.fork("a%d" % i)
        s = gen_hist.base_scenario(r, tables, nthreads=r.range(1, 4))
        gen_hist.thread_history(r, s, r.range(2, 50), with_affinity=True, spice=True)
        scs.append(s)
    corr, real, model = emucheck.run_cases(chk, build, oracle, tables, scs, types={1, 2, 3, 4, 6},
                                           deciders=(emucheck.d_cpu, emucheck.d_thread), label="affinity")
    naff = sum(1 for s in scs for e in s.events if e[2][:2] == "OA")
    chk.count("affinity_events", naff)
    chk.sample({"scenario": scs[0].describe(), "ovniemu_exit": real[0]["rc"], "model": model[0][0] if model[0] else None})
    chk.coverage["rule"] = ("random interleavings of OH* and OAs/OAr (local, remote, other process of the loom, same CPU, unknown tid, vCPU) on 1-4 "
                            "threads, 1-2 looms, 1-3 physical CPUs each; judged on the real cpu.prv rows 3/2/1 recomputed from the thread machine; "
                            "compared with the extracted Coq model")
    emucheck.finish_corr(chk, corr)
