"""C05 - CPU occupancy: one running thread per physical CPU; CPU rows mirror threads."""
from vf import common, emucheck, emucore, gen_hist

LEVEL = "proof"


def run(chk):
    # "cpuc": find_thread of cpu.c with its search loop, and its four callers, regenerated (C05_cpu_lists_from_source)
    build, oracle, tables = emucheck.setup(chk, extra_units=("guards", "chan", "sys", "cpuc"))
    chk.trusted_base = list(getattr(chk, "trusted_base", [])) + [
        "translate/units/cpuc.py + translate/units/_stagec.py: find_thread (DL_FOREACH2 search loop, checked to be the macro's expansion, "
        "body translated), cpu_update, cpu_add_thread, cpu_remove_thread, cpu_migrate_thread of src/emu/cpu.c translated on every run over "
        "coq/Emu/SysPre.v + coq/Emu/CpuCPre.v (dl_search: the elements of cpu->threads visited in list order until the body returns); "
        "the utlist macros DL_APPEND2 / DL_DELETE2 stay primitives (append / remove on the list)",
    ]
    chk.assumptions = ["a remote affinity change to the CPU the thread is already on is refused by the emulator; the property does not "
                       "say, so the decider demands nothing for it", "distinct clocks per event"]
    rng = chk.rng
    scs = []
    for i in range(chk.budget(700, 8000)):
        r = rng.fork("a%d" % i)
        s = gen_hist.base_scenario(r, tables, nthreads=r.range(1, 4))
        gen_hist.thread_history(r, s, r.range(2, 50), with_affinity=True, spice=True)
        scs.append(s)
    corr, real, model = emucheck.run_cases(chk, build, oracle, tables, scs, types={1, 2, 3, 4, 6},
                                           deciders=(emucheck.d_cpu, emucheck.d_thread), label="affinity")
    naff = sum(1 for s in scs for e in s.events if e[2][:2] == "OA")
    chk.count("affinity_events", naff)
    chk.sample({"scenario": scs[0].describe(), "ovniemu_exit": real[0]["rc"], "model": model[0][0] if model[0] else None})
    chk.coverage["rule"] = ("random interleavings of OH* and OAs/OAr (local, remote, other process of the loom, same CPU, unknown tid, vCPU) on 1-4 "
                            "threads, 1-2 looms, 1-3 physical CPUs each; judged on the real cpu.prv rows 3/2/1 recomputed from the thread machine; "
                            "compared with the extracted Coq model")
    emucheck.finish_corr(chk, corr)
