"""C11 - concurrent tracing threads are isolated; process init/fini happen exactly once.

proof (partial): the synchronisation logic of src/rt/ovni.c (rproc.st CAS/load/store protocol, the
write-once process fields, the per-thread state and directories) is modelled in coq/Rt/RtConcDefs.v and
the properties are proved for ALL thread counts, programs and schedules (coq/Proofs/RtConcProofs.v).
C-level data races / weak memory cannot be exhibited by that model: they are SAMPLED here by a
ThreadSanitizer build of the same multi-threaded driver.  The model is tied to the working tree by
(a) a static cross-check of every access to a process-level object in ovni.c/common.c/parson.c against
the model's expansion tables (fail closed), (b) racing the real library and judging it with an
independent decider, (c) differential comparison of per-thread contents with the extracted model."""
import json
import os
import re
import shutil
import struct

from vf import common, trace

LEVEL = "proof"

# ------------------------------------------------------------------ what the model knows
MODEL_FIELDS = ["loom", "pid", "app", "clockid", "loomdir", "tmpdir", "move_to_final", "procdir", "procdir_final"]
RPROC_NOT_PLAIN = {"st": "atomic_int, only through atomic_* (modelled as c_st)",
                   "meta": "declared, never accessed"}
# writable process-level (non-TLS) objects per translation unit of libovni
EXPECT_OBJECTS = {
    "src/rt/ovni.c": {"rproc"},
    "src/common.c": {"progname", "is_debug_enabled"},                       # written only by progname_set/enable_debug (tools)
    "src/parson.c": {"parson_malloc", "parson_free", "parson_escape_slashes"},  # written only by json_set_* (never called)
}
EXPECT_TLS = {"src/rt/ovni.c": {"rthread"}, "src/common.c": set(), "src/parson.c": set()}
# external (libc) functions the library may call: each was looked at for hidden shared state.  POSIX lists strerror, getenv
# and readdir as "need not be thread-safe": glibc's strerror returns constant strings for known errnos (a TLS buffer otherwise),
# getenv only races with setenv/putenv (never called by the library), readdir is used on a DIR private to the caller.
EXPECT_IMPORTS = {
    "__errno_location", "__tls_get_addr", "__ctype_b_loc", "_GLOBAL_OFFSET_TABLE_", "__stack_chk_fail", "stderr",
    "abort", "clock_gettime", "close", "closedir", "fclose", "ferror", "fopen", "fprintf", "fputc", "fputs", "fread", "free",
    "fseek", "ftell", "fwrite", "getenv", "malloc", "memcmp", "memcpy", "memmove", "memset", "mkdir", "open", "opendir",
    "readdir", "remove", "rewind", "rmdir", "snprintf", "sprintf", "stat", "strchr", "strcmp", "strcpy", "strdup", "strerror",
    "strlen", "strncmp", "strpbrk", "strstr", "strtod", "strtok_r", "strtol", "strtoll", "vfprintf", "write",
    "rename", "unlink", "fflush", "fileno", "fsync", "realloc", "calloc", "strncpy", "strnlen", "memchr", "strrchr",   # stateless / per-object, harmless if they appear
    "vsnprintf", "puts", "putc", "fputs_unlocked", "__fprintf_chk", "__snprintf_chk", "__sprintf_chk", "__vfprintf_chk",
    "__memcpy_chk", "__strcpy_chk", "__memset_chk", "__open_2", "__isoc99_sscanf", "getpid", "gettid", "syscall", "sched_yield",
    "access", "lstat", "fstat", "__xstat", "__fxstat", "__lxstat", "read", "pread", "pwrite", "lseek",
}
# functions of the C library that keep hidden process-wide state (POSIX "need not be thread-safe" and friends)
MT_UNSAFE = {"strtok", "strerror_l", "asctime", "ctime", "gmtime", "localtime", "rand", "srand", "random", "srandom", "drand48", "lrand48",
             "mrand48", "getlogin", "ttyname", "basename", "dirname", "setlocale", "localeconv", "tmpnam", "mktemp", "setenv", "putenv", "unsetenv",
             "gethostbyname", "getpwnam", "getpwuid", "getgrnam", "getgrgid", "strsignal", "ecvt", "fcvt", "gcvt", "l64a", "getopt", "wcstombs", "mblen",
             "mbtowc", "wctomb", "crypt", "readdir_r", "nl_langinfo", "inet_ntoa", "getdate", "lgamma", "hsearch", "hcreate", "ptsname", "catgets"}
HOOK_OBJECTS = re.compile(r"^cap\.\d+$")       # lazily initialised capacity of the OVNI_VERIF_EVBUF hook (only with -DOVNI_VERIF)
SETTERS = ["progname_set", "enable_debug", "json_set_allocation_functions", "json_set_escape_slashes",
           "json_set_float_serialization_format", "json_set_number_serialization_function"]

# exported function of ovni.c -> call kind of the model (None = touches no process-level object)
API_KIND = {
    "ovni_proc_init": "ProcInit", "ovni_proc_fini": "ProcFini", "ovni_thread_init": "ThreadInit",
    "ovni_thread_require": "Require", "ovni_add_cpu": "AddCpu", "ovni_proc_set_rank": "SetRank",
    "ovni_ev_emit": "Emit", "ovni_ev_jumbo_emit": "Emit", "ovni_mark_push": "Emit", "ovni_mark_pop": "Emit",
    "ovni_mark_set": "Emit", "ovni_flush": "Flush", "ovni_attr_flush": "AttrFlush", "ovni_thread_free": "ThreadFree",
    "ovni_clock_now": "ClockNow",
    "ovni_attr_has": "AttrSet", "ovni_attr_set_double": "AttrSet", "ovni_attr_get_double": "AttrSet",
    "ovni_attr_get_boolean": "AttrSet", "ovni_attr_set_boolean": "AttrSet", "ovni_attr_set_str": "AttrSet",
    "ovni_attr_get_str": "AttrSet", "ovni_attr_set_json": "AttrSet", "ovni_attr_get_json": "AttrSet",
    "ovni_mark_type": "AttrSet", "ovni_mark_label": "AttrSet",
    "ovni_version_get": None, "ovni_version_check_str": None, "ovni_thread_isready": None,
    "ovni_ev_set_clock": None, "ovni_ev_get_clock": None, "ovni_ev_set_mcv": None, "ovni_payload_size": None,
    "ovni_payload_add": None, "ovni_ev_size": None,
}


class Broken(Exception):
    pass


# ------------------------------------------------------------------ static cross-check of the source
def _strip_c(src):
    """remove comments and the contents of string/char literals (keeps line structure)"""
    out = []
    i, n = 0, len(src)
    while i < n:
        c = src[i]
        if src.startswith("/*", i):
            j = src.find("*/", i + 2)
            j = n if j < 0 else j + 2
            out.append(re.sub(r"[^\n]", " ", src[i:j]))
            i = j
        elif src.startswith("//", i):
            j = src.find("\n", i)
            j = n if j < 0 else j
            i = j
        elif c == '"' or c == "'":
            j = i + 1
            while j < n and src[j] != c:
                j += 2 if src[j] == "\\" else 1
            out.append(c + c)
            i = j + 1
        else:
            out.append(c)
            i += 1
    return "".join(out)


def _preprocess(text):
    """drop the #ifdef OVNI_VERIF / USE_TSC branches (both undefined in the shipped library)"""
    res = []
    stack = []
    for line in text.split("\n"):
        s = line.strip()
        m = re.match(r"#\s*(ifdef|ifndef|if|else|endif|elif)\b\s*(.*)", s)
        if m:
            d, arg = m.group(1), m.group(2).strip()
            if d in ("ifdef", "ifndef"):
                if arg not in ("OVNI_VERIF", "USE_TSC"):
                    raise Broken("UNSUPPORTED preprocessor conditional on %s in ovni.c" % arg)
                stack.append(d == "ifndef")
            elif d == "else":
                if not stack:
                    raise Broken("UNSUPPORTED stray #else")
                stack[-1] = not stack[-1]
            elif d == "endif":
                if not stack:
                    raise Broken("UNSUPPORTED stray #endif")
                stack.pop()
            else:
                raise Broken("UNSUPPORTED preprocessor directive #%s in ovni.c" % d)
            res.append("")
            continue
        res.append(line if all(stack) else "")
    return "\n".join(res)


def parse_functions(text):
    """-> {name: (is_static, body)} for the K&R-free, brace-at-column-0 layout of the repo"""
    lines = text.split("\n")
    funcs = {}
    i = 0
    while i < len(lines):
        if lines[i].rstrip() == "{":
            hdr = []
            k = i - 1
            while k >= 0 and lines[k].strip() and len(hdr) < 6:
                hdr.insert(0, lines[k])
                k -= 1
            h = " ".join(x.strip() for x in hdr)
            m = re.search(r"(\w+)\s*\(([^()]*)\)\s*$", h)
            if not m:
                raise Broken("UNSUPPORTED function header %r" % h[:80])
            j = i + 1
            while j < len(lines) and lines[j].rstrip() != "}":
                j += 1
            if j >= len(lines):
                raise Broken("UNSUPPORTED function body of %s does not end with a brace at column 0" % m.group(1))
            funcs[m.group(1)] = ("static" in h.split(m.group(1))[0].split(), "\n".join(lines[i + 1:j]))
            i = j
        i += 1
    return funcs


PAT_CAS = re.compile(r"atomic_compare_exchange_strong\s*\(\s*&rproc\.st\s*,\s*&\w+\s*,\s*(ST_\w+)\s*\)")
PAT_STORE = re.compile(r"atomic_store\s*\(\s*&rproc\.st\s*,\s*(ST_\w+)\s*\)")
PAT_LOAD = re.compile(r"atomic_load\s*\(\s*&rproc\.st\s*\)\s*!=\s*(ST_\w+)\s*\)\s*die\s*\(")
PAT_WRITE = re.compile(r"rproc\.\w+(\[[^\]]*\])?\s*(=[^=]|\+=|-=|\|=|&=|\+\+|--)|"
                       r"\b(snprintf|sprintf|strcpy|strncpy|strcat|memset|memcpy|memmove|mkdir_proc|mkdir_thread)\s*\(\s*&?rproc\.\w+|&rproc\.(?!st\b)\w+")


def source_access():
    """For every function of ovni.c: the sequence of st operations / process-field accesses in text order
    with static helpers inlined; plus the set of functions that (textually) write a field."""
    path = os.path.join(common.REPO, "src", "rt", "ovni.c")
    text = _preprocess(_strip_c(open(path, encoding="utf-8", errors="replace").read()))
    # members of struct ovni_rproc
    m = re.search(r"struct\s+ovni_rproc\s*\{(.*?)\n\};", text, re.S)
    if not m:
        raise Broken("UNSUPPORTED struct ovni_rproc not found")
    members = []
    for decl in m.group(1).split(";"):
        decl = decl.strip()
        if not decl:
            continue
        mm = re.search(r"(\w+)\s*(\[[^\]]*\])?$", decl)
        if not mm:
            raise Broken("UNSUPPORTED member declaration %r" % decl)
        members.append(mm.group(1))
    # the objects themselves
    if not re.search(r"^struct\s+ovni_rproc\s+rproc\s*=\s*\{0\};", text, re.M):
        raise Broken("UNSUPPORTED definition of rproc changed")
    if not re.search(r"^_Thread_local\s+struct\s+ovni_rthread\s+rthread\s*=\s*\{0\};", text, re.M):
        raise Broken("rthread is no longer `_Thread_local struct ovni_rthread rthread`")
    funcs = parse_functions(text)
    raw = {}
    writers = set()
    for name, (is_static, body) in funcs.items():
        toks = []
        covered = []
        for pat, kind in ((PAT_CAS, "cas"), (PAT_STORE, "store"), (PAT_LOAD, "load")):
            for mm in pat.finditer(body):
                toks.append((mm.start(), "%s:%s" % (kind, mm.group(1))))
                covered.append((mm.start(), mm.end()))
        for mm in re.finditer(r"\brproc\b(\s*\.\s*(\w+))?", body):
            if any(a <= mm.start() < b for a, b in covered):
                continue
            if not mm.group(2):
                raise Broken("UNSUPPORTED use of the whole `rproc` object in %s()" % name)
            if mm.group(2) == "st":
                raise Broken("UNSUPPORTED access to rproc.st in %s() outside atomic_compare_exchange_strong/"
                             "atomic_store/`atomic_load(&rproc.st) != ST_x) die(`" % name)
            toks.append((mm.start(), "F:" + mm.group(2)))
        if PAT_WRITE.search(body):
            writers.add(name)
        for g in funcs:
            for mm in re.finditer(r"\b%s\s*\(" % re.escape(g), body):
                toks.append((mm.start(), "call:" + g))
        toks.sort()
        raw[name] = [t for _, t in toks]

    def inline(name, stack):
        seq = []
        for t in raw[name]:
            if t.startswith("call:"):
                g = t[5:]
                if g not in stack:
                    seq += inline(g, stack | {g})
            else:
                seq.append(t)
        return seq

    def closure(name, acc):
        for t in raw[name]:
            if t.startswith("call:") and t[5:] not in acc:
                acc.add(t[5:])
                closure(t[5:], acc)
        return acc

    seqs = {n: inline(n, {n}) for n in funcs}
    clos = {n: closure(n, {n}) for n in funcs}
    exported = [n for n, (st, _) in funcs.items() if not st]
    return {"members": members, "funcs": funcs, "seqs": seqs, "closure": clos, "exported": exported, "writers": writers}


def model_access(oracle):
    tab = {}
    for mv in (0, 1):
        line = common.batch(oracle, ["X %d" % mv])[0]
        for ent in line.split(" "):
            k, v = ent.split("=")
            tab[(k, mv)] = [] if v == "-" else v.split(",")
    return tab


def static_crosscheck(chk, oracle):
    """-> list of BROKEN-TIE messages (empty = the model covers every process-level access of the source)"""
    msgs = []
    try:
        src = source_access()
    except Broken as e:
        return ["BROKEN-TIE ovni.c: %s" % e]
    chk.coverage["rproc_members_in_source"] = src["members"]
    for f in src["members"]:
        if f not in MODEL_FIELDS and f not in RPROC_NOT_PLAIN:
            msgs.append("BROKEN-TIE struct ovni_rproc has a member `%s` the model does not know" % f)
    for f in MODEL_FIELDS + list(RPROC_NOT_PLAIN):
        if f not in src["members"]:
            msgs.append("BROKEN-TIE struct ovni_rproc lost the member `%s` of the model" % f)
    for n in src["exported"]:
        if n not in API_KIND:
            msgs.append("BROKEN-TIE ovni.c exports `%s`, which the model has no call kind for" % n)
    if oracle is None:
        return msgs + ["BROKEN-TIE no extracted model to compare the source's access table with"]
    tab = model_access(oracle)
    table = {}
    only_init = set(src["closure"].get("ovni_proc_init", set()))
    for n in src["exported"]:
        if n != "ovni_proc_init":
            only_init -= src["closure"][n]
    for w in sorted(src["writers"]):
        if w not in only_init:
            msgs.append("BROKEN-TIE %s() writes a process field but is reachable outside ovni_proc_init" % w)
    for n in sorted(src["exported"]):
        kind = API_KIND.get(n)
        seq = src["seqs"][n]
        sops = [t for t in seq if not t.startswith("F:")]
        flds = sorted({t[2:] for t in seq if t.startswith("F:")})
        table[n] = {"kind": kind, "st_ops": sops, "fields": flds}
        if kind is None:
            if seq:
                msgs.append("BROKEN-TIE %s() touches %s but the model treats it as free of process state" % (n, seq))
            continue
        mops = [t for t in tab[(kind, 1)] if t[:2] not in ("W:", "R:")]
        mflds = sorted({t[2:] for mv in (0, 1) for t in tab[(kind, mv)] if t[:2] in ("W:", "R:")})
        mwrites = any(t.startswith("W:") for t in tab[(kind, 1)])
        if sops != mops:
            msgs.append("BROKEN-TIE %s(): st operations in the source %s, in the model (%s) %s" % (n, sops, kind, mops))
        if kind == "Emit" and n in ("ovni_ev_emit", "ovni_ev_jumbo_emit", "ovni_mark_push", "ovni_mark_pop", "ovni_mark_set"):
            ok = set(flds) <= set(mflds)      # the clock is read by the caller (ovni_clock_now) or on the buffer-full path
        else:
            ok = flds == mflds
        if not ok:
            msgs.append("BROKEN-TIE %s(): process fields in the source %s, in the model (%s) %s" % (n, flds, kind, mflds))
        if mwrites != (n == "ovni_proc_init"):
            msgs.append("BROKEN-TIE model/source disagree on who writes process fields (%s)" % n)
        # order: the first st operation precedes every field access; ovni_proc_init publishes last
        if sops and seq and seq[0].startswith("F:") and kind not in ("Flush",):
            msgs.append("BROKEN-TIE %s(): a process field is accessed before the st operation %s" % (n, sops[0]))
        if kind == "Flush":
            if not (seq and seq[0] == "load:ST_READY"):
                msgs.append("BROKEN-TIE ovni_flush(): process state touched before the READY check")
        if n == "ovni_proc_init" and (not seq or seq[0] != "cas:ST_INIT" or seq[-1] != "store:ST_READY"):
            msgs.append("BROKEN-TIE ovni_proc_init(): the field writes are not bracketed by the CAS to ST_INIT and the "
                        "final atomic_store(ST_READY): %s" % seq)
    chk.coverage["source_access_table"] = table
    # the other translation units never call the setters of their globals
    for rel in ("src/rt/ovni.c",):
        t = _strip_c(open(os.path.join(common.REPO, rel), encoding="utf-8", errors="replace").read())
        for s in SETTERS:
            if re.search(r"\b%s\s*\(" % s, t):
                msgs.append("BROKEN-TIE %s calls %s(): a process-level object of common.c/parson.c is now written by libovni" % (rel, s))
    return msgs


def _iflags(build, verif):
    fl = ["-I" + os.path.join(common.REPO, "src", "include"), "-I" + os.path.join(common.REPO, "src"),
          "-I" + os.path.join(common.REPO, "include"), "-I" + build.incdir, "-I" + os.path.join(build.path, "src"),
          "-D_POSIX_C_SOURCE=200809L", "-D_GNU_SOURCE"]
    if verif:
        fl.append("-D" + common.GUARD)
    return fl


def symbol_crosscheck(chk, build, wd):
    """compile each libovni source and list writable non-TLS data objects; anything the model does not know fails closed"""
    msgs = []
    seen = {}
    for rel in EXPECT_OBJECTS:
        for verif in (False, True):
            obj = os.path.join(wd, "sym-%s-%d.o" % (os.path.basename(rel), verif))
            rc, o, e = common.run(["cc", "-std=gnu11", "-O1", "-w", "-fPIC", "-c", "-o", obj, os.path.join(common.REPO, rel)] + _iflags(build, verif))
            if rc != 0:
                msgs.append("BROKEN-TIE cannot compile %s for the symbol cross-check: %s" % (rel, e[-300:]))
                continue
            rc, secs, _ = common.run(["readelf", "-SW", obj])
            rc2, syms, _ = common.run(["readelf", "-sW", obj])
            wsec, tsec = set(), set()
            for mm in re.finditer(r"^\s*\[\s*(\d+)\]\s+(\S+)\s+\S+\s+[0-9a-f]+\s+[0-9a-f]+\s+[0-9a-f]+\s+[0-9a-f]+\s+([A-Za-z]*)\s", secs, re.M):
                idx, name, flags = int(mm.group(1)), mm.group(2), mm.group(3)
                if "W" in flags and "A" in flags:
                    (tsec if "T" in flags else wsec).add(idx)
            shared, tls = set(), set()
            for line in syms.split("\n"):
                f = line.split()
                if len(f) < 8 or not f[0].rstrip(":").isdigit():
                    continue
                typ, ndx, name = f[3], f[6], f[7]
                if typ == "TLS":
                    tls.add(name)
                elif typ in ("OBJECT", "COMMON") and (ndx == "COM" or (ndx.isdigit() and int(ndx) in wsec)):
                    shared.add(name)
            if verif:
                shared = {s for s in shared if not HOOK_OBJECTS.match(s)}
            seen[rel + (" -D%s" % common.GUARD if verif else "")] = {"shared": sorted(shared), "tls": sorted(tls)}
            for s in sorted(shared - EXPECT_OBJECTS[rel]):
                msgs.append("BROKEN-TIE %s defines a new process-level (non-thread-local) object `%s` that the model does not cover" % (rel, s))
            for s in sorted(EXPECT_OBJECTS[rel] - shared):
                msgs.append("BROKEN-TIE %s no longer defines the process-level object `%s` of the model" % (rel, s))
            if tls != EXPECT_TLS[rel]:
                msgs.append("BROKEN-TIE %s: thread-local objects %s, the model expects %s" % (rel, sorted(tls), sorted(EXPECT_TLS[rel])))
    chk.coverage["process_level_objects"] = seen
    # external calls: a function with hidden process-wide state (strtok's cursor, localtime's buffer ...) makes two tracing
    # threads interfere without any object of the library being shared; anything not looked at yet fails closed
    defined, undefined = set(), {}
    for rel in EXPECT_OBJECTS:
        obj = os.path.join(wd, "sym-%s-0.o" % os.path.basename(rel))
        rc, o, _ = common.run(["nm", "-g", obj])
        for line in o.split("\n"):
            f = line.split()
            if len(f) == 3 and f[1] in "TDBRWVtdbr":
                defined.add(f[2])
            elif len(f) == 2 and f[0] == "U":
                undefined.setdefault(f[1], set()).add(rel)
    ext = {n: sorted(w) for n, w in undefined.items() if n not in defined}
    chk.coverage["external_calls"] = sorted(ext)
    for n in sorted(ext):
        base = re.sub(r"^__(?:isoc99_|isoc23_)?|_chk$", "", n)
        if n in MT_UNSAFE or base in MT_UNSAFE:
            msgs.append("BROKEN-TIE %s calls `%s`, a C library function with hidden process-wide state: two threads inside the library interfere through it"
                        % ("/".join(ext[n]), n))
        elif n not in EXPECT_IMPORTS:
            msgs.append("BROKEN-TIE %s calls the external function `%s`, which the thread-safety review of the model does not cover" % ("/".join(ext[n]), n))
    return msgs


# ------------------------------------------------------------------ trials
ATTR_LEAVES = ["alpha", "beta", "gamma", "delta", "grp.x", "grp.y", "grp2.z"]


def ev_expect(op):
    """bytes the op puts into the stream: (mcv, payload)"""
    if op[0] == "X":
        return ("OHx", struct.pack("<iiQ", int(op[1:]), -1, 0))
    if op[0] == "e":
        return ("OHe", b"")
    if op[0] == "M":
        t, v = op[1:].split(":")
        return ("OM=", struct.pack("<qi", int(v), int(t)))
    raise ValueError(op)


def emu_models():
    """(name, version) of the emulator models of the working tree, so that requirements are satisfiable"""
    res = []
    base = os.path.join(common.REPO, "src", "emu")
    for d in sorted(os.listdir(base)):
        p = os.path.join(base, d, "setup.c")
        if d != "ovni" and os.path.isfile(p):
            m = re.search(r'\.version\s*=\s*"(\d+\.\d+\.\d+)"', open(p, errors="replace").read())
            if m:
                res.append((d, m.group(1)))
    return res


MODELS = []


def tracing_prog(r, idx, tid, ncpu, first="I", heavy=False, illegal=False, rank=(0, 1)):
    """a conformant per-thread program with recognisable payloads (thread index + sequence number)"""
    ops = []

    def jitter():
        p = r.below(10)
        if p < 2:
            ops.append("Y")
        elif p < 3:
            ops.append("S%d" % r.range(10, 3000))
        elif p < 4 and not heavy:
            ops.append("U%d" % r.range(1, 60))

    ops.append("%s%d" % (first, tid))
    jitter()
    if MODELS and r.chance(1, 3):
        ops.append("R%s:%s" % r.choice(MODELS))
    for c in range(ncpu):
        ops.append("C%d:%d" % (c, c))
    if r.chance(1, 4):
        ops.append("K%d:%d" % rank)        # every thread of a process reports the same rank
    ops.append("X%d" % idx)
    mtype = r.range(1, 9)
    ops.append("T%d:type%d" % (mtype, mtype))
    seq = 0
    nact = r.range(3, 60 if not heavy else 400)
    used = set()
    for _ in range(nact):
        p = r.below(100)
        if p < 60:
            seq += 1
            ops.append("M%d:%d" % (mtype, ((idx + 1) << 32) | seq))
        elif p < 70:
            ops.append("F")
        elif p < 88:
            leaf = r.choice(ATTR_LEAVES)
            key = "rtconc.t%d.%s" % (idx, leaf)
            kind = r.choice("DSBJ")
            if kind == "D":
                ops.append("AD%s=%d.5" % (key, r.below(1000)))
            elif kind == "S":
                ops.append("AS%s=s%dx%d" % (key, idx, r.below(1000)))
            elif kind == "B":
                ops.append("AB%s=%d" % (key, r.below(2)))
            else:
                ops.append("AJ%s=[%d,%d]" % (key, idx, r.below(1000)))
            used.add(leaf)
        elif p < 92:
            ops.append("G")
        else:
            jitter()
    if illegal:
        ops.insert(r.range(1, len(ops)), r.choice(["C-1:0", "M%d:0" % mtype, "I0", "T%d:again" % mtype, "I%d" % (tid + 50)]))
    ops += ["e", "F", "Z"]
    if illegal and r.chance(1, 2):
        ops.append(r.choice(["Z", "F", "G", "M%d:5" % mtype, "I%d" % tid, "ADrtconc.late=1"]))
    return ops


def delay_ops(r):
    p = r.below(20)
    if p < 8:
        return []
    if p < 13:
        return ["S%d" % r.range(1, 60)]
    if p < 15:
        return ["Y"]
    if p < 17:
        return ["S%d" % r.range(60, 2000)]
    if p < 19:
        return ["S%d" % r.range(2000, 20000)]
    return ["U%d" % r.range(1, 40)]


def gen_trial(r, kind, k):
    t = {"kind": kind, "k": k, "app": r.range(1, 5), "loom": "rtconc%d" % r.below(3), "pid": r.range(2, 30000),
         "tmpdir": r.chance(1, 4), "threads": [], "may_refuse": [], "main_init": 0, "main_fini": 0}
    base = 7000 + 10 * r.below(100)
    rank = (t["pid"] % 4, 4)
    if kind in ("init-pure", "fini-pure"):
        # nothing but the racing call, 6-8 racers released by the spinning barrier: the narrowest windows
        n = r.range(6, 8)
        for i in range(n):
            d = ["S%d" % r.range(1, 40)] if r.chance(1, 3) else []
            t["threads"].append(d + ["P" if kind == "init-pure" else "Q"])
            t["may_refuse"].append({len(d)})
        t["tmpdir"] = False
        if kind == "init-pure":
            t["main_fini"] = 1
        else:
            t["main_init"] = 1
    elif kind == "init":
        n = r.range(2, 8)
        nj = r.range(1, 2) if r.chance(2, 5) and n <= 6 else 0
        for i in range(n):
            d = delay_ops(r)
            cont = tracing_prog(r, i, base + i, n + nj, rank=rank) if r.chance(3, 4) else []
            t["threads"].append(d + ["P"] + cont)
            t["may_refuse"].append({len(d)})
        for j in range(nj):      # late joiners: ovni_thread_init retried until the process is READY
            t["threads"].append((delay_ops(r) if r.chance(1, 4) else []) + tracing_prog(r, n + j, base + n + j, n + nj, first="W", rank=rank))
            t["may_refuse"].append(set())
        t["main_fini"] = 1
    elif kind == "fini":
        n = r.range(2, 8)
        nb = 1 if r.chance(3, 10) and n <= 7 else 0
        for i in range(n):
            pre = tracing_prog(r, i, base + i, n + nb, rank=rank) if r.chance(3, 4) else []
            d = delay_ops(r)
            t["threads"].append(pre + ["B"] + d + ["Q"])
            t["may_refuse"].append({len(pre) + 1 + len(d)})
        for j in range(nb):      # bystander still tracing while the process is finalised: its st-guarded calls may be refused
            prog = ["B"] + delay_ops(r) + tracing_prog(r, n + j, base + n + j, n + nb, rank=rank)
            t["threads"].append(prog)
            t["may_refuse"].append({x for x, o in enumerate(prog) if o[0] in "ICKF"})
        t["main_init"] = 1
    elif kind == "lockstep":
        # serialised runs: one thread at a time, switched at the libc calls of the library (see harness/rtconc_drv.c);
        # legal programs only, so every refusal and every foreign byte is a violation
        n = r.range(2, 4)
        for i in range(n):
            prog = [o for o in tracing_prog(r, i, base + i, n, rank=rank) if o[0] not in "USY"]
            if MODELS and not any(o[0] == "R" for o in prog) and r.chance(1, 2):
                prog.insert(1, "R%s:%s" % r.choice(MODELS))
            t["threads"].append(prog)
            t["may_refuse"].append(set())
        t["main_init"] = 1
        t["main_fini"] = 1
        t["lockstep"] = 1 + r.below(1 << 30)
    elif kind == "lockfini":
        # serialised, OVNI_TMPDIR set: one thread traces, frees its stream and finalises the process while others call
        # ovni_proc_init; the switches fall on the rmdir(2) calls INSIDE ovni_proc_fini too, so a racer runs
        # between its accesses to the process state.  The process was initialised by main: every racing init must be refused.
        prog = [o for o in tracing_prog(r, 0, base, 1, rank=rank) if o[0] not in "USY"]
        t["threads"].append(prog + ["Q"])
        t["may_refuse"].append({len(prog)})
        for i in range(r.range(1, 3)):
            wait = ["J"] if r.chance(4, 5) else []      # J: wait (giving the turn away) until some thread is inside ovni_proc_fini
            t["threads"].append(wait + ["P"])
            t["may_refuse"].append({len(wait)})
        t["tmpdir"] = True
        t["main_init"] = 1
        t["lockstep"] = 1 + r.below(1 << 30)
    else:
        n = r.range(2, 8)
        heavy = r.chance(1, 5)
        for i in range(n):
            t["threads"].append(delay_ops(r) + tracing_prog(r, i, base + i, n, heavy=heavy, illegal=r.chance(1, 7), rank=rank))
            t["may_refuse"].append(set())
        t["main_init"] = 1
        t["main_fini"] = 1
    return t


def script_of(t):
    lines = ["proc %d %s %d" % (t["app"], t["loom"], t["pid"]), "main_init %d" % t["main_init"],
             "main_fini %d" % t["main_fini"], "drop 1"]
    if t.get("lockstep"):
        lines.append("lockstep %d" % t["lockstep"])
    for i, ops in enumerate(t["threads"]):
        lines.append("thread %d %s" % (i, " ".join(ops)))
    return "\n".join(lines) + "\n"


API_OPS = "PQIWRCKXeMTFAGZN"


# ------------------------------------------------------------------ independent sequential spec of one thread
def _dotset(d, key, v):
    parts = key.split(".")
    for p in parts[:-1]:
        d = d.setdefault(p, {})
    d[parts[-1]] = v


def std_meta(t, tid, libver):
    return {"version": 3, "ovni": {"lib": {"version": libver}, "part": "thread", "tid": tid, "pid": t["pid"],
                                    "loom": t["loom"], "app_id": t["app"]}}


def spec_thread(t, ops, died, libver, modelver):
    """What the API documentation says one thread must end with, given where (if anywhere) it was refused.
    -> (mandatory_die_index or None, disk events [(mcv,payload)], metadata-on-disk dict or None, tid or None)"""
    ready = finished = False
    tid = None
    buf, disk, meta, cpus, rank, meta_disk = [], None, None, [], None, None
    marks = set()
    must = None
    for k, op in enumerate(ops):
        if died is not None and k == died and op[0] in "PQ":
            break
        c = op[0]
        if c not in API_OPS or c in "PQN":
            continue
        bad = False
        if c in "IW":
            if ready:
                continue
            if finished or int(op[1:]) == 0:
                bad = True
            elif died == k:
                break                      # refused by the st check: decided by the caller
            else:
                tid = int(op[1:])
                buf, disk, cpus, rank, marks = [], [], [], None, set()
                meta = std_meta(t, tid, libver)
                meta_disk = json.loads(json.dumps(meta))
                ready = True
                _dotset(meta, "ovni.require.ovni", modelver)
        elif c == "C":
            i, p = (int(x) for x in op[1:].split(":"))
            if i < 0 or p < 0 or not ready:
                bad = True
            elif died == k:
                break
            else:
                cpus.append((i, p))
        elif c == "K":
            if not ready:
                bad = True
            elif died == k:
                break
            else:
                rank = tuple(int(x) for x in op[1:].split(":"))
        elif c == "R":
            if not ready:
                bad = True
            else:
                m, v = op[1:].split(":")
                _dotset(meta, "ovni.require." + m, v)
        elif c in "XeM":
            if (c == "M" and int(op.split(":")[1]) == 0) or not ready:
                bad = True
            else:
                buf.append(ev_expect(op))
        elif c == "T":
            ty, title = op[1:].split(":")
            if finished or not ready or ty in marks:
                bad = True
            else:
                marks.add(ty)
                _dotset(meta, "ovni.mark.%s.title" % ty, title)
                _dotset(meta, "ovni.mark.%s.chan_type" % ty, "single")
        elif c == "F":
            if not ready:
                bad = True
            elif died == k:
                break
            else:
                disk += buf
                buf = [("OF[", b""), ("OF]", b"")]
        elif c == "A":
            if finished or not ready:
                bad = True
            else:
                key, val = op[2:].split("=", 1)
                v = {"D": lambda: float(val), "S": lambda: val, "B": lambda: bool(int(val)), "J": lambda: json.loads(val)}[op[1]]()
                _dotset(meta, key, v)
        elif c == "G":
            if finished or not ready:
                bad = True
            else:
                meta_disk = json.loads(json.dumps(meta))
        elif c == "Z":
            if finished or not ready:
                bad = True
            else:
                if rank is not None:
                    _dotset(meta, "ovni.rank", rank[0])
                    _dotset(meta, "ovni.nranks", rank[1])
                if cpus:
                    _dotset(meta, "ovni.loom_cpus", [{"index": i, "phyid": p} for i, p in cpus])
                _dotset(meta, "ovni.finished", 1)
                meta_disk = json.loads(json.dumps(meta))
                finished, ready = True, False
        if bad:
            must = k
            break
    return must, disk, meta_disk, tid


# ------------------------------------------------------------------ model side
class Codes:
    """injective coding of strings into the integers the model works with"""

    def __init__(self):
        self.d = {}
        self.r = []

    def code(self, s):
        if s not in self.d:
            self.d[s] = len(self.r) + 1
            self.r.append(s)
        return self.d[s]

    def text(self, n):
        return self.r[n - 1]


def model_prog(ops, codes):
    """driver ops -> model calls (one per API op) ; returns (calls, index of the op each call stands for)"""
    calls, where = [], []
    marks = set()
    for k, op in enumerate(ops):
        c = op[0]
        if c not in API_OPS:
            continue
        if c == "P":
            m = "P"
        elif c == "Q":
            m = "Q"
        elif c in "IW":
            m = "I%d" % int(op[1:])
        elif c == "R":
            a, b = op[1:].split(":")
            m = "R%d:%d" % (codes.code("req:" + a), codes.code("ver:" + b))
        elif c == "C":
            m = "C" + op[1:]
        elif c == "K":
            m = "K" + op[1:]
        elif c in "XeM":
            if c == "M" and int(op.split(":")[1]) == 0:
                m = "C-1:-1"         # ovni_mark_set(…, 0): refused on its argument, like a negative cpu index
            else:
                m = "E%d" % codes.code("ev:" + op)
        elif c == "T" and op[1:].split(":")[0] in marks:
            m = "C-1:-1"             # ovni_mark_type on a type the thread already defined: refused
        elif c == "T":
            marks.add(op[1:].split(":")[0])
            m = "A%d:%d" % (codes.code("mark:" + op[1:].split(":")[0]), codes.code("title:" + op[1:].split(":")[1]))
        elif c == "F":
            m = "F"
        elif c == "A":
            key, val = op[2:].split("=", 1)
            m = "A%d:%d" % (codes.code("attr:" + key), codes.code("val:" + op[1] + val))
        elif c == "G":
            m = "G"
        elif c == "Z":
            m = "Z"
        else:
            m = "N"
        calls.append(m)
        where.append(k)
    return calls, where


def parse_model_thread(s):
    f = dict(x.split("=", 1) for x in s.strip().split(" "))
    obs = None if f["obs"] == "none" else ([] if f["obs"] == "-" else f["obs"].split(","))
    meta = None
    if f["meta"] != "none":
        inner = f["meta"][1:-1]
        meta = [] if inner == "-" else inner.split(",")
    return {"out": "" if f["out"] == "-" else f["out"], "dead": f["dead"] == "1", "done": f["done"] == "1",
            "tid": int(f["tid"]), "obs": obs, "meta": meta}


def model_meta_json(t, tid, items, codes, libver, modelver):
    meta = std_meta(t, tid, libver)
    cpus = []
    for it in items:
        k = it[0]
        a, _, b = it[1:].partition(":")
        if k == "q":
            if int(a) == 0:
                _dotset(meta, "ovni.require.ovni", modelver)
            else:
                _dotset(meta, "ovni.require." + codes.text(int(a))[4:], codes.text(int(b))[4:])
        elif k == "a":
            key, val = codes.text(int(a)), codes.text(int(b))
            if key.startswith("mark:"):
                _dotset(meta, "ovni.mark.%s.title" % key[5:], val[6:])
                _dotset(meta, "ovni.mark.%s.chan_type" % key[5:], "single")
            else:
                kind, raw = val[4], val[5:]
                v = {"D": lambda: float(raw), "S": lambda: raw, "B": lambda: bool(int(raw)), "J": lambda: json.loads(raw)}[kind]()
                _dotset(meta, key[5:], v)
        elif k == "c":
            cpus.append({"index": int(a), "phyid": int(b)})
        elif k == "r":
            _dotset(meta, "ovni.rank", int(a))
            _dotset(meta, "ovni.nranks", int(b))
        elif k == "f":
            if cpus:
                _dotset(meta, "ovni.loom_cpus", cpus)
            _dotset(meta, "ovni.finished", 1)
    return meta


def model_obs_events(obs, codes):
    res = []
    for it in obs:
        if it == "H":
            continue
        if it == "B":
            res.append(("OF[", b""))
        elif it == "D":
            res.append(("OF]", b""))
        else:
            res.append(ev_expect(codes.text(int(it[1:]))[3:]))
    return res


# ------------------------------------------------------------------ running one trial on the real library
def run_trial(exe, t, wd, tsan=False, timeout=25):
    d = os.path.join(wd, "%s%s-%d" % ("ts-" if tsan else "", t["kind"], t["k"]))
    os.makedirs(d)
    os.chmod(d, 0o777)
    tracedir = os.path.join(d, "ovni")
    tmpdir = os.path.join(d, "tmp")
    sp = os.path.join(d, "script")
    open(sp, "w").write(script_of(t))
    env = {"OVNI_TRACEDIR": tracedir}
    if t["tmpdir"]:
        env["OVNI_TMPDIR"] = tmpdir
    if tsan:
        env["TSAN_OPTIONS"] = "log_path=%s exitcode=0 halt_on_error=0 report_thread_leaks=0 second_deadlock_stack=1" % os.path.join(d, "tsan")
    full = {k: v for k, v in os.environ.items() if k not in ("OVNI_TMPDIR", "OVNI_TRACEDIR", "OVNI_VERIF_EVBUF")}
    full.update(env)
    import subprocess
    rc, out, err = "timeout", "", ""
    for attempt, tmo in enumerate((timeout, timeout * 5)):
        # on a loaded machine the spinning barriers / the lockstep hand-over can starve: a trial that does not finish is
        # run once more from scratch with five times the budget before it is reported
        if attempt:
            shutil.rmtree(tracedir, ignore_errors=True)
            shutil.rmtree(tmpdir, ignore_errors=True)
        try:
            p = subprocess.run([exe, sp], stdout=subprocess.PIPE, stderr=subprocess.PIPE, timeout=tmo, env=full, cwd=d)
            rc, out, err = p.returncode, p.stdout.decode(errors="replace"), p.stderr.decode(errors="replace")
            break
        except subprocess.TimeoutExpired:
            rc, out, err = "timeout", "", ""
    res = {"rc": rc, "threads": {}, "main": None, "dir": d, "stderr_tail": err[-1500:], "tsan": []}
    for line in out.split("\n"):
        m = re.match(r"t (\d+) done=(\d+) died=(-?\d+) retries=(\d+) why=(.*)$", line)
        if m:
            res["threads"][int(m.group(1))] = {"done": int(m.group(2)), "died": None if m.group(3) == "-1" else int(m.group(3)),
                                                "retries": int(m.group(4)), "why": m.group(5)}
        m = re.match(r"main init=(\w+) fini=(\w+)", line)
        if m:
            res["main"] = (m.group(1), m.group(2))
    if tsan:
        for f in sorted(os.listdir(d)):
            if f.startswith("tsan."):
                res["tsan"].append(open(os.path.join(d, f), errors="replace").read())
    res["tracedir"], res["tmpdir"] = tracedir, tmpdir
    return res


def read_thread_files(t, res, tid):
    """-> (obs bytes or None, json text or None, where)"""
    sub = os.path.join("loom.%s" % t["loom"], "proc.%d" % t["pid"], "thread.%d" % tid)
    obs = js = None
    where = []
    for root in (res["tracedir"], res["tmpdir"]):
        p = os.path.join(root, sub)
        if obs is None and os.path.isfile(os.path.join(p, "stream.obs")):
            obs = open(os.path.join(p, "stream.obs"), "rb").read()
            where.append(root)
        if js is None and os.path.isfile(os.path.join(p, "stream.json")):
            js = open(os.path.join(p, "stream.json"), "rb").read().decode(errors="replace")
    return obs, js


def norm_meta(m):
    m = json.loads(json.dumps(m))
    try:
        m["ovni"]["lib"].pop("commit", None)
    except (KeyError, TypeError, AttributeError):
        pass
    return m


def judge(chk, t, res, libver, modelver, build, oracle_pred, tag=""):
    """independent decider on what the real library did.  Returns list of (key, text) violations and
    list of correspondence disagreements."""
    viol, corr = [], []
    kind = t["kind"]
    ident = "%s%s-%d" % (tag, kind, t["k"])
    if res["rc"] != 0 or res["main"] is None or len(res["threads"]) != len(t["threads"]):
        viol.append(("driver-crashed", "trial %s: the process running the real library did not complete (exit %s): %s"
                     % (ident, res["rc"], res["stderr_tail"][-300:])))
        return viol, corr
    np_ok = nq_ok = np_call = nq_call = 0
    all_fin = True
    traced = 0
    for i, ops in enumerate(t["threads"]):
        r = res["threads"][i]
        died = r["died"]
        for k, op in enumerate(ops):
            if op == "P" and (died is None or k <= died):
                np_call += 1
                np_ok += 0 if died == k else 1
            if op == "Q" and (died is None or k <= died):
                nq_call += 1
                nq_ok += 0 if died == k else 1
    mi, mf = res["main"]
    np_ok += mi == "ok"
    np_call += mi != "none"
    nq_ok += mf == "ok"
    nq_call += mf != "none"
    res["counts"] = (np_call, np_ok, nq_call, nq_ok)
    if np_call and np_ok != 1:
        viol.append(("init-not-once:%d-of-%d" % (np_ok, np_call),
                     "%d of %d concurrent ovni_proc_init calls took effect (exactly one must, the others must be refused)" % (np_ok, np_call)))
    if nq_call and np_ok == 1 and nq_ok != 1:
        viol.append(("fini-not-once:%d-of-%d" % (nq_ok, nq_call),
                     "%d of %d ovni_proc_fini calls on a READY process took effect (exactly one must)" % (nq_ok, nq_call)))
    for i, ops in enumerate(t["threads"]):
        r = res["threads"][i]
        died = r["died"]
        must, disk, meta_disk, tid = spec_thread(t, ops, died, libver, modelver)
        legit = died is not None and (died in t["may_refuse"][i])
        if died is not None and died != must and not legit:
            viol.append(("unexpected-refusal:%s" % ops[died][0],
                         "thread %d of trial %s was refused in `%s` (op %d, die(\"%s\")) although nothing in its own history forbids the call: "
                         "interference or a lost process state" % (i, ident, ops[died], died, r.get("why"))))
            all_fin = False
            continue
        if must is not None and died != must and not (died is not None and died < must):
            viol.append(("call-not-refused:%s" % ops[must][:1],
                         "thread %d of trial %s: `%s` (op %d) must be refused, the library returned" % (i, ident, ops[must], must)))
            continue
        if died is not None:
            chk.count("thread:refused-at-" + ops[died][0])
        if tid is None:
            continue
        traced += 1
        if meta_disk is None or meta_disk.get("ovni", {}).get("finished") != 1:
            all_fin = False
        obs, js = read_thread_files(t, res, tid)
        if obs is None or js is None:
            viol.append(("stream-missing", "thread %d (tid %d) of trial %s: stream files missing" % (i, tid, ident)))
            continue
        ok, evs, perr = trace.parse_obs(obs)
        got = [(e["mcv"], e["payload"]) for e in evs]
        if not ok or got != disk:
            foreign = [g for g in got if g not in disk]
            viol.append(("stream-content:" + ("foreign" if foreign else "order-or-loss"),
                         "thread %d (tid %d) of trial %s: stream.obs does not hold exactly the thread's own events in its own order "
                         "(%s; %d events, expected %d; first foreign %r)" % (i, tid, ident, perr, len(got), len(disk), foreign[:1])))
            continue
        try:
            jm = norm_meta(json.loads(js))
        except ValueError:
            viol.append(("metadata-unparsable", "thread %d (tid %d) of trial %s: stream.json is not JSON" % (i, tid, ident)))
            continue
        if jm != norm_meta(meta_disk):
            viol.append(("metadata-content", "thread %d (tid %d) of trial %s: stream.json differs from what the thread set: got %s expected %s"
                         % (i, tid, ident, json.dumps(jm, sort_keys=True)[:600], json.dumps(norm_meta(meta_disk), sort_keys=True)[:600])))
            continue
        # model prediction for this thread alone (schedule independent by C11_isolation)
        if oracle_pred is not None and not legit:
            mp, codes, where = oracle_pred[i]
            exp_out = ("o" * len([w for w in where if died is None or w < died])) + ("d" if died is not None else "")
            if mp["out"] != exp_out:
                corr.append((ident, i, "outcomes", mp["out"], exp_out))
            elif mp["obs"] is None or model_obs_events(mp["obs"], codes) != got:
                corr.append((ident, i, "obs", mp["obs"], len(got)))
            elif mp["meta"] is None or norm_meta(model_meta_json(t, tid, mp["meta"], codes, libver, modelver)) != jm:
                corr.append((ident, i, "meta", mp["meta"], js[:200]))
    res["all_finished"] = all_fin and traced > 0 and nq_ok == 1
    return viol, corr


TSAN_LIB = re.compile(r"/src/(rt/ovni\.c|common\.c|parson\.c|include/\w+\.h)")


def tsan_reports(res):
    out = []
    for txt in res["tsan"]:
        for rep in txt.split("=================="):
            if "WARNING: ThreadSanitizer: data race" in rep:
                out.append(rep.strip())
    return out


# ------------------------------------------------------------------ the check
def build_drivers(build):
    hd = os.path.join(common.BUILD, "harness")
    os.makedirs(hd, exist_ok=True)
    src = os.path.join(common.VERIF, "harness", "rtconc_drv.c")
    sig = common.hashlib.sha256(open(src, "rb").read()).hexdigest()[:8]
    hx = os.path.join(hd, "rtconc_drv-%s-%s" % (build.tree, sig))
    tx = os.path.join(hd, "rtconc_tsan-%s-%s" % (build.tree, sig))
    if not (os.path.exists(hx) and os.path.exists(tx)):
        for f in os.listdir(hd):
            if f.startswith("rtconc_drv-") or f.startswith("rtconc_tsan-"):
                try:
                    os.remove(os.path.join(hd, f))
                except OSError:
                    pass
    if not os.path.exists(hx):
        common.cc_harness(hx + ".tmp", [src], build,
                          extra=[os.path.join(build.libdir, "libovni-static.a"), os.path.join(build.path, "src", "libparson-static.a"),
                                 os.path.join(build.path, "src", "libcommon-static.a"), "-lpthread", "-ldl"])
        os.replace(hx + ".tmp", hx)
    tsan_err = None
    if not os.path.exists(tx):
        # the shipped sources (no -DOVNI_VERIF: the EVBUF hook keeps a lazily initialised static) compiled into the driver
        cmd = ["clang", "-std=gnu11", "-O1", "-g", "-w", "-fsanitize=thread", "-fno-omit-frame-pointer", "-DRTCONC_NO_LOCKSTEP", "-o", tx + ".tmp", src] + \
              [os.path.join(common.REPO, s) for s in EXPECT_OBJECTS] + _iflags(build, False) + ["-lpthread"]
        rc, o, e = common.run(cmd, timeout=600)
        if rc != 0:
            tsan_err = e[-1500:]
        else:
            os.replace(tx + ".tmp", tx)
    return hx, (tx if tsan_err is None else None), tsan_err


def run(chk):
    chk.trusted_base = common.BASE_TRUST + [
        "hand model coq/Rt/RtConcDefs.v of the st protocol, the process fields and the per-thread state of src/rt/ovni.c; tied by a static "
        "access-table/symbol cross-check (fail closed) and by differential runs of the real library against the extracted model",
        "translator unit translate/units/rtconc.py (own walk of the clang JSON AST, no stage-C core): ovni_proc_init/proc_fini/thread_init/"
        "thread_free/thread_isready and the functions they reach that touch rproc are rendered whole, the process-state preamble of every other "
        "exported function; atomic_compare_exchange_strong/atomic_load/atomic_store on rproc.st and every read/write of a plain rproc field become "
        "shared actions of the trace monad coq/Rt/RtConcPre.v (read/write of an array field passed by address decided by the const-ness of the "
        "callee's parameter; accesses inside the arguments of die() not emitted), everything else is an opaque step or an opaque condition; "
        "the table function -> call kind is hand-written in coq/Proofs/RtConcGenProofs.v (its length is checked against the generated list)",
        "sequentially consistent atomics (the code uses the default memory order); the C11 memory model itself is not formalised",
        "ThreadSanitizer (clang 14) as the sampler for C-level data races, glibc pthreads, the interposed abort() of harness/rtconc_drv.c",
        "extraction (ExtrOcamlBasic only) + OCaml 4.13 + oracle/rtconc_drv.ml",
        "event bytes, the buffer-full path, JSON and I/O failures are abstracted here (rtbuf/rtfs engines: C01, C02, C09, C10)",
    ]
    chk.assumptions = ["threads of one process use distinct TIDs (two threads sharing a TID share a directory by design)",
                       "no ovni_clock_now()/emit before the thread's first other call (C11_no_race hypothesis `guardedb`); "
                       "an uninitialised thread calling ovni_clock_now() concurrently with ovni_proc_init does race on rproc.clockid",
                       "loom names shorter than OVNI_MAX_HOSTNAME, directories creatable (failures after the winning CAS leave st = INIT for ever)",
                       "events per thread stay below the 2 MiB buffer in the racing trials (the buffer-full path is C01/C02's)"]
    chk.notes.append("proof (partial): all interleavings are covered in the model; C-level data races and weak-memory effects are "
                     "only sampled (TSan) on the driver's executions")
    try:
        # unit rtconc: the process-state skeleton of the API functions regenerated from the clang AST and proved equal to the
        # model's call expansions (C11_call_expansions_from_source); the regex cross-check below stays (symbol tables, field sets)
        chk.translate_and_prove(["rtconc"])
    except Exception as e:       # no property file yet / make failure
        chk.proof_broken = {"kind": "proof-obligation", "failure": repr(e)[:400]}

    build = common.repo_build("hook")
    oracle = None
    try:
        oracle = common.build_oracle("rtconc", "Extract_rtconc", "rtconc_drv.ml", "rtconc_x")
    except Exception as e:
        chk.notes.append("oracle unavailable: %r" % (e,))
        if not getattr(chk, "proof_broken", None):
            chk.proof_broken = {"kind": "extraction", "error": repr(e)[:500]}

    hdr = open(os.path.join(build.incdir, "ovni.h")).read()
    libver = re.search(r'#define OVNI_LIB_VERSION "([^"]*)"', hdr).group(1)
    modelver = re.search(r'#define OVNI_MODEL_VERSION "([^"]*)"', hdr).group(1)

    wd = trace.workdir("ovni-verif-rtconc-")
    os.chmod(wd, 0o755)
    try:
        # ---- (3) static: the model knows every process-level object and every access to it
        ties = static_crosscheck(chk, oracle) + symbol_crosscheck(chk, build, wd)
        chk.count("static:functions-compared", len(chk.coverage.get("source_access_table", {})))
        ties = sorted(set(ties))
        if ties:
            chk.coverage["broken_tie"] = ties
            chk.notes += ties
            if not getattr(chk, "proof_broken", None):
                chk.proof_broken = {"kind": "model-does-not-cover-source", "messages": ties}

        hx, tx, tsan_err = build_drivers(build)

        rng = chk.rng
        MODELS[:] = emu_models()
        trials = []
        for kind, n in (("init", chk.budget(200, 2000)), ("fini", chk.budget(200, 2000)), ("iso", chk.budget(100, 1000)),
                        ("init-pure", chk.budget(400, 4000)), ("fini-pure", chk.budget(400, 4000)),
                        ("lockstep", chk.budget(160, 1600)), ("lockfini", chk.budget(120, 1200))):
            for k in range(n):
                trials.append(gen_trial(rng.fork("%s%d" % (kind, k)), kind, k))

        # ---- model predictions: every thread alone (seq_result) + whole runs under random schedules
        preds = {}
        model_problems = []
        if oracle:
            lines, idx = [], []
            for ti, t in enumerate(trials):
                per = []
                for i, ops in enumerate(t["threads"]):
                    codes = Codes()
                    calls, where = model_prog(ops, codes)
                    # a racing P/Q that the thread may lose: the sequential reference is "wins"
                    lines.append("S %d %s" % (1 if t["tmpdir"] else 0, ",".join(calls) or "-"))
                    idx.append((ti, i))
                    per.append([None, codes, where])
                preds[ti] = per
            outs = common.batch(oracle, lines, timeout=900)
            for (ti, i), o in zip(idx, outs):
                preds[ti][i][0] = parse_model_thread(o)
            # whole-system runs of the model under two random schedules each: the theorems, executed
            rl, ri = [], []
            for ti, t in enumerate(trials[:: max(1, len(trials) // chk.budget(150, 600))]):
                r = rng.fork("sched%d" % ti)
                progs = []
                if t["main_init"]:
                    progs.append(["P"])
                for ops in t["threads"]:
                    progs.append(model_prog(ops, Codes())[0])
                for rep in range(2):
                    total = sum(len(p) for p in progs) * 12
                    sched = [r.below(len(progs)) for _ in range(r.range(0, total))]
                    rl.append("R %d %s %s" % (1 if t["tmpdir"] else 0, "|".join(",".join(p) or "-" for p in progs),
                                              ",".join(map(str, sched)) or "-"))
                    ri.append(t)
            routs = common.batch(oracle, rl, timeout=900)
            for t, line, o in zip(ri, rl, routs):
                m = re.match(r"wi=(\d+) wf=(\d+) ci=(\d+) cf=(\d+) st=(\w+) # (.*)$", o)
                chk.case(("model-run", line))
                chk.count("model-run:" + t["kind"])
                if not m:
                    model_problems.append(("unparsable", line[:200], o[:200]))
                    continue
                wi, wf, ci, cf = (int(m.group(x)) for x in (1, 2, 3, 4))
                if wi > 1 or wf > 1 or (ci and wi != 1):
                    model_problems.append(("once", line[:300], o[:200]))
                ths = [parse_model_thread(x) for x in m.group(6).split(" # ")]
                off = 1 if t["main_init"] else 0
                for i, ops in enumerate(t["threads"]):
                    mt = ths[off + i]
                    calls = model_prog(ops, Codes())[0]
                    if mt["done"] and not mt["dead"]:
                        so = common.batch(oracle, ["S %d %s" % (1 if t["tmpdir"] else 0, ",".join(calls) or "-")])[0]
                        sp = parse_model_thread(so)
                        if (mt["out"], mt["obs"], mt["meta"]) != (sp["out"], sp["obs"], sp["meta"]):
                            model_problems.append(("isolation", line[:300], o[:200]))
            if model_problems:
                chk.coverage["model_self_check_failures"] = [repr(x)[:400] for x in model_problems[:5]]
                if not getattr(chk, "proof_broken", None):
                    chk.proof_broken = {"kind": "extracted-model-contradicts-theorems", "cases": [repr(x)[:300] for x in model_problems[:3]]}

        # ---- (1) race the real library
        def one(ti):
            t = trials[ti]
            res = run_trial(hx, t, wd)
            v, c = judge(chk_proxy, t, res, libver, modelver, build, preds.get(ti))
            emu = None
            if not v and res.get("all_finished"):
                rcode, o, e = trace.run_tool(build, "ovniemu", [], res["tracedir"], timeout=60)
                emu = (rcode, e[-800:])
            if not v:
                shutil.rmtree(res["dir"], ignore_errors=True)
            return res, v, c, emu

        class _Proxy:          # chk.count from worker threads, applied afterwards
            def __init__(self):
                self.h = []

            def count(self, k, n=1):
                self.h.append((k, n))
        chk_proxy = _Proxy()
        results = []
        stopped = False
        for lo in range(0, len(trials), 48):        # in chunks, so that a badly broken tree does not cost the whole budget
            results += trace.pmap(one, list(range(lo, min(lo + 48, len(trials)))), workers=min(common.NCPU, 12))
            if len({key for (_, v, _, _) in results for key, _ in v}) >= 6 or sum(1 for (_, v, _, _) in results if v) >= 40:
                stopped = True
                chk.notes.append("search stopped after %d of %d trials: enough violations" % (len(results), len(trials)))
                break
        trials_run = trials[:len(results)]
        for k, n in chk_proxy.h:
            chk.count(k, n)
        corr_all = []
        emu_ok = 0
        for ti, (res, v, c, emu) in enumerate(results):
            t = trials[ti]
            chk.case((t["kind"], script_of(t)))
            chk.count("trial:" + t["kind"])
            chk.count("threads:%d" % len(t["threads"]))
            if t["tmpdir"]:
                chk.count("trial:with-OVNI_TMPDIR")
            if "counts" in res:
                npc, npo, nqc, nqo = res["counts"]
                chk.count("proc_init:calls", npc)
                chk.count("proc_init:won", npo)
                chk.count("proc_init:refused", npc - npo)
                chk.count("proc_fini:calls", nqc)
                chk.count("proc_fini:won", nqo)
                chk.count("proc_fini:refused", nqc - nqo)
                chk.count("late-joiner-retries", sum(x["retries"] for x in res["threads"].values()))
            for key, text in v:
                chk.violation(key, text, {"trial": t, "script": script_of(t), "result": {k: res[k] for k in ("rc", "threads", "main", "stderr_tail")},
                                          "how": "harness/rtconc_drv <script> with OVNI_TRACEDIR%s set; the outcome depends on the schedule, repeat"
                                                 % ("/OVNI_TMPDIR" if t["tmpdir"] else "")})
            corr_all += c
            if emu is not None:
                if emu[0] == 0:
                    emu_ok += 1
                else:
                    chk.violation("ovniemu-rejects:" + t["kind"], "the trace of a multi-threaded run in which every thread finished is rejected by ovniemu",
                                  {"trial": t, "script": script_of(t), "ovniemu_exit": emu[0], "stderr": emu[1]})
        chk.coverage["traces_validated_against_impl"] = len(results)
        chk.coverage["traces_accepted_by_ovniemu"] = emu_ok
        if trials:
            t0 = trials[0]
            chk.sample({"kind": t0["kind"], "script": script_of(t0), "result": {k: results[0][0].get(k) for k in ("threads", "main", "counts")}})
            t1 = trials[len(results) - 1]
            chk.sample({"kind": t1["kind"], "script": script_of(t1)[:1500], "result": {k: results[-1][0].get(k) for k in ("threads", "main", "counts")}})

        # ---- (2) support: ThreadSanitizer on the same driver
        if tx is None:
            chk.notes.append("TSan build of the driver failed: %s" % tsan_err)
            chk.violation("tsan-build-failed", "the ThreadSanitizer build of libovni + driver does not compile", {"stderr": tsan_err}, found_input=False)
        else:
            sub = []
            for kind, n in (("init", chk.budget(40, 300)), ("fini", chk.budget(40, 300)), ("iso", chk.budget(40, 300)),
                            ("init-pure", chk.budget(40, 300)), ("fini-pure", chk.budget(40, 300))):
                sub += [t for t in trials if t["kind"] == kind][:n]

            def one_ts(t):
                res = run_trial(tx, t, wd, tsan=True, timeout=90)
                v, c = judge(_Proxy(), t, res, libver, modelver, build, None, tag="tsan-")
                reps = tsan_reports(res)
                shutil.rmtree(res["dir"], ignore_errors=True)
                return res, v, reps
            tres = []
            for lo in range(0, len(sub), 24):
                tres += trace.pmap(one_ts, sub[lo:lo + 24], workers=min(common.NCPU, 8))
                if sum(len(reps) for (_, _, reps) in tres) >= 10 or sum(1 for (_, v, _) in tres if v) >= 10:
                    chk.notes.append("TSan search stopped after %d of %d trials" % (len(tres), len(sub)))
                    break
            sub = sub[:len(tres)]
            nrep = 0
            for t, (res, v, reps) in zip(sub, tres):
                chk.case(("tsan", t["kind"], script_of(t)))
                chk.count("tsan-trial:" + t["kind"])
                for key, text in v:
                    chk.violation(key, text + " (TSan build)", {"trial": t, "script": script_of(t), "result": {k: res[k] for k in ("rc", "threads", "main", "stderr_tail")}})
                for rep in reps:
                    nrep += 1
                    m = TSAN_LIB.findall(rep)
                    loc = re.search(r"SUMMARY: ThreadSanitizer: data race (\S+) in (\w+)", rep)
                    if m:
                        fr = re.search(r"#\d+ (\w+) \S*/src/(?:rt/ovni\.c|common\.c|parson\.c)", rep)
                        where = loc.group(2) if loc else (fr.group(1) if fr else "libovni")
                        chk.violation("data-race:" + where, "ThreadSanitizer: data race inside libovni (%s)" % (loc.group(0) if loc else "?"),
                                      {"trial": t, "script": script_of(t), "report": rep[:6000],
                                       "how": "clang -fsanitize=thread build of harness/rtconc_drv.c + src/rt/ovni.c src/common.c src/parson.c; run the script"})
                    else:
                        chk.violation("tsan-driver-race", "ThreadSanitizer reports a race outside libovni (driver defect)", {"report": rep[:3000]}, found_input=False)
            chk.coverage["tsan_trials"] = len(sub)
            chk.coverage["tsan_data_race_reports"] = nrep
            # documentation of the conformance hypothesis of C11_no_race (outside the property's quantifier): not a violation
            probe = {"kind": "probe", "k": 0, "app": 1, "loom": "rtconc", "pid": 5, "tmpdir": False, "main_init": 0, "main_fini": 0,
                     "threads": [["P"], ["N"] * 200], "may_refuse": [set(), set()]}
            hits = 0
            for k in range(5):
                probe["k"] = k
                res = run_trial(tx, probe, wd, tsan=True)
                hits += 1 if tsan_reports(res) else 0
                shutil.rmtree(res["dir"], ignore_errors=True)
            chk.coverage["unguarded_clock_probe"] = {"runs": 5, "runs_with_tsan_report": hits,
                                                     "meaning": "ovni_clock_now() by a thread that never observed READY, concurrent with ovni_proc_init: "
                                                                "excluded by hypothesis `guardedb` of C11_no_race (Example C11_unguarded_clock_is_unordered)"}

        if corr_all:
            chk.coverage["correspondence_disagreements"] = [repr(x)[:300] for x in corr_all[:10]]
            if not chk.violations:
                chk.violation("broken-correspondence", "model and implementation disagree on %d thread results, none of which violates the property's spec" % len(corr_all),
                              {"correspondence": "rtconc model (seq_result) vs real libovni per-thread contents", "disagreements": [repr(x)[:300] for x in corr_all[:20]]},
                              found_input=False)
    finally:
        shutil.rmtree(wd, ignore_errors=True)
    chk.coverage["rule"] = ("each trial = one process running harness/rtconc_drv with 2-10 pthreads behind a start barrier and scripted yields/spins/sleeps: "
                            "init trials race ovni_proc_init (winner and late joiners then trace), fini trials race ovni_proc_fini after tracing (optionally with a "
                            "bystander still tracing), iso trials run random per-thread programs (emit/flush/attr/cpu/rank/require/free, 1 in 7 with an illegal call); "
                            "lockstep trials run 2-4 legal tracing programs serialised, one thread at a time, switching pseudo-randomly at the libc calls the library makes "
                            "(strtol, strtod, snprintf, open, fopen, fclose, write, mkdir, rmdir) so that a window between two libc calls of one API function is as wide as a whole run of the others; "
                            "lockfini trials (lockstep, OVNI_TMPDIR) let 1-3 racers call ovni_proc_init while another thread is inside ovni_proc_fini (switches at its rmdir calls): every racing init must be refused; "
                            "a quarter with OVNI_TMPDIR; non-trivial = distinct script; the decider is a sequential per-thread spec in Python, the model prediction is "
                            "compared separately; TSan runs a subset of the same scripts; model-run = whole-system run of the extracted model under a random schedule")
