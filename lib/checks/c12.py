"""C12 - structurally invalid or incomplete traces are rejected, never emulated as ok.

Theorems: coq/Props/Properties_C12.v (stream layer accepts exactly the structurally valid files; each
class rejected; emu_ev's is_jumbo; model not enabled; metadata gates).  Here: the corruption campaign
on the real ovniemu, judged by an independent validator, plus model-vs-implementation comparison for
the structural classes.  "unknown event" and "wrong payload size" are covered by this campaign only."""
import json
import os
import re
import shutil
import struct

from vf import common, trace
from checks import loader_common as L
from checks import c19 as C19

LEVEL = "proof"
HDR = L.HDR


def accepted(rc, out, err):
    return rc == 0 or "emulation finished ok" in (err or "") or "emulation finished ok" in (out or "")


def leaves(d, prefix=""):
    """all dotted paths of a JSON object (objects and leaves)"""
    res = []
    for k, v in d.items():
        p = prefix + k
        res.append(p)
        if isinstance(v, dict):
            res += leaves(v, p + ".")
    return res


def jget(d, path):
    for p in path.split("."):
        d = d[p]
    return d


def jset(d, path, v, delete=False):
    parts = path.split(".")
    for p in parts[:-1]:
        d = d[p]
    if delete:
        del d[parts[-1]]
    else:
        d[parts[-1]] = v


# what the property fixes about metadata keys: deleting/altering these must make the emulator fail
def meta_expectation(path, op, value, thread, threads, models_by_name):
    """-> True (must be rejected) / None (the property does not say)"""
    meta = thread["meta"]
    if path == "version":
        if op == "delete":
            return True
        return True if not (isinstance(value, (int, float)) and not isinstance(value, bool) and int(value) == 3) else None
    if path == "ovni":
        return True
    if path == "ovni.finished":
        if op == "delete":
            return True
        return True if not (isinstance(value, (int, float)) and not isinstance(value, bool) and value == 1) else None
    if path == "ovni.part":
        if op == "delete" or not isinstance(value, str):
            return True
        return None            # another string: the stream is skipped with a warning (then its events are from an unknown stream)
    if path in ("ovni.tid", "ovni.pid"):
        if op == "delete":
            return True
        if not isinstance(value, (int, float)) or isinstance(value, bool) or value == 0:
            return True
        return None
    if path == "ovni.loom":
        if op == "delete" or not isinstance(value, str):
            return True
        return None
    if path == "ovni.require":
        if op == "delete" or not isinstance(value, dict):
            return True
        return None
    if path == "ovni.app_id":
        others = [t for t in threads if t is not thread and t["pid"] == thread["pid"] and "app_id" in t["meta"]["ovni"]]
        if op == "delete":
            return True if not others else None
        if isinstance(value, (int, float)) and not isinstance(value, bool) and value <= 0:
            return True
        return None
    if path in ("ovni.rank", "ovni.nranks") and "rank" in meta["ovni"]:
        # proc.c load_rank: the rank is optional; with a rank, nranks is mandatory, positive, above the rank, and both
        # agree among the threads of a process
        mates = [t for t in threads if t is not thread and t["pid"] == thread["pid"] and "rank" in t["meta"]["ovni"]]
        isint = isinstance(value, int) and not isinstance(value, bool)
        if path == "ovni.nranks":
            if op == "delete":
                return True
            if not isinstance(value, (int, float)) or isinstance(value, bool):
                return True                                   # read as 0
            if abs(value) > 2 ** 30:
                return None
            n = int(value)
            if n <= 0 or meta["ovni"]["rank"] >= n or (mates and n != mates[0]["meta"]["ovni"]["nranks"]):
                return True
            return None
        if op == "delete":
            return None
        if isint and abs(value) < 2 ** 30:
            if value < 0 or value >= meta["ovni"]["nranks"] or (mates and value != mates[0]["meta"]["ovni"]["rank"]):
                return True
        return None
    if path.startswith("ovni.require."):
        name = path.split(".")[2]
        mid = [m[0] for m in models_by_name.values() if m[1] == name]
        uses = any(ord(e[0][0]) == mid[0] for e in thread["events"]) if mid else False
        others = any(t is not thread and name in t["meta"]["ovni"].get("require", {}) for t in threads)
        if op == "delete":
            # the base model 'O' is always enabled (C14 known finding); any other model must be required by somebody
            return True if (uses and not others and name != "ovni") else None
        # altered: whichever thread carries it, a version that does not parse as x.y.z or that the model's own
        # version does not satisfy (other major, greater minor) must make the emulator fail
        if isinstance(value, str) and mid:
            have = [int(x) for x in [m for m in models_by_name.values() if m[1] == name][0][2].split(".")]
            mm = re.match(r"^(\d+)\.(\d+)\.(\d+)$", value)
            if not mm:
                return True
            want = [int(x) for x in mm.groups()]
            return True if (want[0] != have[0] or want[1] > have[1]) else None
        return None
    return None


ALTER_VALUES = [None, True, 0, -1, 2, 4, 2.5, "3", "1", "x", "", [], {}, [1], 1e300]


def run(chk):
    chk.trusted_base = common.BASE_TRUST + [
        "translate/units/meta.py + _stagec.py: check_version, is_thread_stream, loom_name, proc_stream_get_pid, load_appid, load_rank, thread_stream_get_tid, thread_load_metadata, should_enable and the head / the JSON part of one loop iteration of load_cpus are rendered into coq/Gen/Meta_gen.v on every run; parson's look-up API, strcmp and the conversions double<->int are hand-written in coq/Emu/MetaPre.v over the JSON model of coq/Rt/RtMetaDefs.v (numbers are integers; `(int) d` is the identity on |d| < 2^31); clang's AST and the Python printer are trusted",
        "translate/units/footprint.py + _stagec.py (havoc mode): the handlers of ovni/event.c, ovni/mark.c and the pre_task chains and pre_type of nosv/event.c and nanos6/event.c are rendered into coq/Gen/Foot_gen.v on every run with explicit bounds-checked payload reads, and the dispatch code of the other seven models (model_<m>_event, process_ev, simple, context_switch of nosv, nanos6, nodes, mpi, tampi, openmp, kernel /event.c) into coq/Gen/FootAll_gen.v, where the static tables ss_table / fn_table are arbitrary rows (FootPre.opq_row); everything but the event is an arbitrary oracle (coq/Emu/FootPre.v); the translator checks that untranslated callees can only receive the event if they never mention `payload`; in pre_type a pointer into the payload is a byte offset, memcpy/memchr are explicit bounds-checked reads and the label handed to the untranslated task_type_create is assumed to be read as a C string only (a NUL inside the payload is then required and proved); clang's AST and the Python printer are trusted",
        "translator translate/c2gallina.py for ovni_ev_size/ovni_payload_size (unit loader) and next_ev_size (unit loader_step), validated against the compiled C by the C19 check",
        "hand models of stream.c (coq/Emu/StreamDefs.v), emu_ev.c and model_event (coq/Emu/EmuEvDefs.v), metadata gates (coq/Emu/LoaderMetaDefs.v), validated each run against ovniemu and the in-process harness",
        "independent format specification coq/Emu/LoaderSpec.v (proved equivalent to acceptance by the model) and its Python twin lib/checks/loader_common.py:validate_obs used to classify corrupted traces",
        "extraction (ExtrOcamlBasic only) + OCaml 4.13 + oracle/loader_drv.ml",
        "parson is an oracle (metadata theorems are about an abstract record of look-up results); for the stream-layer theorems the handlers are a parameter; the classes 'unknown event' and 'wrong payload size' are theorems about the emulator-core model's dispatch (tables dumped from the source by translate/units/tables.py + the hand-written switches of Emu/DecodeDefs.v, validated against ovniemu by C18's per-code probes and this campaign)",
        "translate/units/dispatch.py + _stagec.py: the dispatch code of the eight models (model_<m>_event, process_ev, simple, kernel context_switch, ovni pre_cpu / pre_flush) is rendered into coq/Gen/Dispatch_gen.v on every run and proved to refuse what the decoder calls an unknown event (C12_unknown_event_from_source); the table look-up is the row dumped by unit tables",
    ]
    chk.assumptions = ["stream->clock_offset = 0", "a stream file is smaller than 2^63 bytes",
                       "theorems are about the repaired stream_step and emu_ev (patches/fix-c19-stream-bounds.diff, patches/fix-c12-is-jumbo.diff)"]
    broken = common.translate(["loader", "loader_step", "tables", "footprint", "stepper", "version", "meta", "guards", "chan", "sys", "taskev", "dispatch"])
    fixed_tree = not any("unit=loader_step" in b for b in broken)
    if broken:
        chk.proof_broken = {"kind": "translator", "messages": broken}
        chk.notes.append("translator refused the current source: " + "; ".join(broken))
        chk.obligations = len(common.property_theorems(chk.prop))
        chk.discharged = 0
    else:
        chk.prove()
    which = "new" if fixed_tree else "old"

    build = common.repo_build("hook")
    hx = L.loader_harness(build)
    oracle = None
    try:
        oracle = L.loader_oracle()
    except Exception as e:
        chk.notes.append("oracle unavailable: %r" % (e,))
        if not getattr(chk, "proof_broken", None):
            chk.proof_broken = {"kind": "extraction", "error": repr(e)[:500]}
    models = L.models_of(build)
    by_name = {m[1]: m for m in models}
    decl = C19.declared_events(build)
    rng = chk.rng
    corr_broken = []

    # ---- emu_ev: is_jumbo must reflect the flags of THIS event (implementation judged in process)
    el = []
    for k in range(chk.budget(200, 2000)):
        r = rng.fork("E%d" % k)
        seq = []
        for _ in range(r.range(2, 5)):
            f = r.choice([0, 1, 3, 7, 15, 0x10, 0x13, 0x1F])
            sz = r.choice([0, 1, 4, 5, 100]) if f & 0x10 else 0
            seq.append((f, (struct.pack("<B3sQ", f, r.choice([b"VYc", b"6Yc", b"OHx"]), r.below(1000)) + struct.pack("<I", sz) + b"\x01" * 12).hex()))
        el.append(seq)
    ei = common.batch(hx, ["E " + ";".join(h for _, h in seq) for seq in el])
    for seq, line in zip(el, ei):
        chk.case(("E", tuple(h for _, h in seq)))
        for (f, h), dec in zip(seq, line.split(" ")):
            fields = dec.split(":")
            if fields[3] == "1" and not (f & 0x10):
                chk.violation("emu_ev:is_jumbo-carried-over",
                              "emu_ev() reports is_jumbo=1 for an event whose jumbo flag is clear (flags 0x%02x) after a jumbo event" % f,
                              {"events_hex": [x for _, x in seq], "decoded": line, "how": "harness/loader_h.c: E <hex>;<hex>...",
                               "theorems": "C12_unfixed_jumbo_flag_refuted / C12_nonjumbo_decoded_nonjumbo"})
    chk.count("emu_ev:sequences", len(el))

    # ---- the corruption campaign on ovniemu
    wd = trace.workdir()
    try:
        jobs = []     # dict(k, cls, key, threads, obs{}, meta{}, expect True/None, model_line)
        ntr = chk.budget(20, 200)
        zero_payload_decl = [mcv for (mcv, isj, args) in decl if not isj and not args]
        for name, d in L.load_corpus("C12"):
            kf = os.path.join(d, "KEY")
            key = open(kf).read().strip() if os.path.exists(kf) else "corpus:" + name
            jobs.append({"k": "corpus-" + name, "cls": "corpus", "key": key, "copy_from": d, "expect": True})
        for k in range(ntr):
            r = rng.fork("T%d" % k)
            th = L.gen_trace(r, models, small=(k % 2 == 0))
            jobs.append({"k": "t%d" % k, "cls": "valid", "key": "valid", "threads": th, "expect": False, "base": k})
            total = sum(len(L.obs_of(t)) for t in th)
            n = 0
            for ti, t in enumerate(th):
                obs = L.obs_of(t)
                ok, evs, why = L.validate_obs(obs)
                assert ok, why
                # (a) truncation: every byte offset for traces <= 600 bytes, else every offset of the last two events + a sample
                if total <= 600:
                    cuts = range(len(obs))
                else:
                    cuts = sorted(set(list(range(evs[-2]["off"], len(obs))) + [r.below(len(obs)) for _ in range(60)]))
                for c in cuts:
                    b = obs[:c]
                    v, _, _ = L.validate_obs(b)
                    # a cut on an event boundary leaves a well-formed but incomplete stream: when it removes the
                    # thread's final OHe the thread never ends, and the trace must not be emulated as ok
                    ends = [e["off"] for e in evs if e["mcv"] == "OHe"]
                    incomplete = bool(ends) and c <= ends[-1]
                    jobs.append({"k": "t%d_c%d_%d" % (k, ti, c), "cls": "truncate", "key": "truncate" if not v else "truncate-at-event-boundary", "threads": th, "obs": {ti: b},
                                 "expect": (True if (not v or incomplete) else None), "struct": b})
                # (b) swap of every adjacent pair with different clocks
                for i in range(len(evs) - 1):
                    if evs[i]["clock"] == evs[i + 1]["clock"]:
                        continue
                    a, z = evs[i], evs[i + 1]
                    b = obs[:a["off"]] + obs[z["off"]:z["off"] + z["size"]] + obs[a["off"]:a["off"] + a["size"]] + obs[z["off"] + z["size"]:]
                    v, _, _ = L.validate_obs(b)
                    jobs.append({"k": "t%d_s%d_%d" % (k, ti, i), "cls": "swap", "key": "swap", "threads": th, "obs": {ti: b},
                                 "expect": (True if not v else None), "struct": b})
                # (d) each header byte altered
                for i in range(8):
                    for x in sorted({obs[i] ^ 1, obs[i] ^ 0xFF, 0} - {obs[i]}):
                        b = obs[:i] + bytes([x]) + obs[i + 1:]
                        jobs.append({"k": "t%d_h%d_%d_%d" % (k, ti, i, x), "cls": "header", "key": "header-byte-%d" % i, "threads": th, "obs": {ti: b},
                                     "expect": True, "struct": b})
                # (c) metadata: deletion and alteration of every key
                meta = t["meta"]
                for path in leaves(meta):
                    m2 = json.loads(json.dumps(meta))
                    jset(m2, path, None, delete=True)
                    jobs.append({"k": "t%d_md%d_%s" % (k, ti, path), "cls": "meta-delete", "key": "meta-delete:" + path, "threads": th,
                                 "meta": {ti: json.dumps(m2).encode()}, "expect": meta_expectation(path, "delete", None, t, th, by_name)})
                    alts = [r.choice(ALTER_VALUES) for _ in range(chk.budget(3, 6))]
                    if path.startswith("ovni.require.") and isinstance(jget(meta, path), str) and re.match(r"^\d+\.\d+\.\d+$", jget(meta, path)):
                        hv = [int(x) for x in jget(meta, path).split(".")]
                        alts += ["%d.%d.0" % (hv[0] + 1, hv[1]), "%d.%d.0" % (hv[0], hv[1] + 1), "%d.%d" % (hv[0], hv[1])]
                    for vi, v in enumerate(alts):
                        if v == jget(meta, path):
                            continue
                        m2 = json.loads(json.dumps(meta))
                        jset(m2, path, v)
                        jobs.append({"k": "t%d_ma%d_%s_%d" % (k, ti, path, vi), "cls": "meta-alter", "key": "meta-alter:" + path, "threads": th,
                                     "meta": {ti: json.dumps(m2).encode()}, "expect": meta_expectation(path, "alter", v, t, th, by_name)})
                # unparsable metadata
                txt = json.dumps(meta).encode()
                for cut in sorted(set([0, 1, len(txt) // 2, len(txt) - 1] + [r.below(len(txt)) for _ in range(3)])):
                    jobs.append({"k": "t%d_mu%d_%d" % (k, ti, cut), "cls": "meta-unparsable", "key": "meta-unparsable", "threads": th,
                                 "meta": {ti: txt[:cut]}, "expect": True})
                jobs.append({"k": "t%d_mx%d" % (k, ti), "cls": "meta-missing-file", "key": "meta-not-object", "threads": th,
                             "meta": {ti: b"[1,2]"}, "expect": True})
                # (e)(f)(g): one event replaced / inserted
                req = set(meta["ovni"]["require"].keys())
                not_required = [m for m in models if m[1] not in req]
                for ei_, e in enumerate(evs):
                    if e["mcv"] in ("OHx", "OHe"):
                        continue

                    def repl(new_ev_bytes, e=e):
                        return obs[:e["off"]] + new_ev_bytes + obs[e["off"] + e["size"]:]
                    if n % 3 == 0 and not_required:
                        # substitution of an MCV of a model the trace did not require
                        m_ = r.choice(not_required)
                        cands = [c for c in zero_payload_decl if ord(c[0]) == m_[0]]
                        if cands and any(ord(c[0]) == m_[0] for c in cands) and not any(m_[1] in t2["meta"]["ovni"]["require"] for t2 in th):
                            mcv = r.choice(cands)
                            jobs.append({"k": "t%d_u%d_%d" % (k, ti, ei_), "cls": "undeclared-model", "key": "undeclared-model:" + m_[1], "threads": th,
                                         "obs": {ti: repl(trace.ev_bytes(mcv, e["clock"]))}, "expect": True})
                    if n % 3 == 1:
                        # (OU? and OB? are not unknown: the base model ignores the value byte of its burst and unordered-region
                        #  categories, as the event catalogue property C18 states; they were removed from this list)
                        mcv = r.choice(["OZz", "OH?", "OFx", "OAq", "OM?", "ZZZ", "\x01\x02\x03", "O\x00\x00", "oHx", "Ohx", "VZz", "VY?"])
                        if mcv[0] == "V" and "nosv" not in req:
                            mcv = "OZz"
                        # an undeclared VALUE in a category the required model does declare (its table or switch knows the
                        # category, not the value): the event catalogue lists no such event, so it is unknown
                        req_models = [m for m in models if m[1] in req and chr(m[0]) != "O"]
                        if req_models and r.chance(1, 2):
                            m_ = r.choice(req_models)
                            cats = sorted({c[1] for (c, _j, _a) in decl if ord(c[0]) == m_[0]})
                            if cats:
                                cat = r.choice(cats)
                                free = [v for v in "z1Q~" if all(c != chr(m_[0]) + cat + v for (c, _j, _a) in decl)]
                                if free:
                                    mcv = chr(m_[0]) + cat + r.choice(free)
                        jobs.append({"k": "t%d_k%d_%d" % (k, ti, ei_), "cls": "unknown-event", "key": "unknown-event:" + mcv.encode("latin1").hex(), "threads": th,
                                     "obs": {ti: repl(trace.ev_bytes(mcv, e["clock"], e["payload"] if e["jumbo"] is None else b""))}, "expect": True})
                    n += 1
                # (g) wrong payload sizes
                first = evs[0]
                for sz in (0, 2, 3):
                    pl = struct.pack("<iiI", first["payload"][0], t["tid"], 0)[:sz]
                    b = HDR + trace.ev_bytes("OHx", first["clock"], pl) + obs[first["off"] + first["size"]:]
                    jobs.append({"k": "t%d_px%d_%d" % (k, ti, sz), "cls": "payload-size", "key": "payload-size:OHx=%d" % sz, "threads": th, "obs": {ti: b}, "expect": True})
                after = first["off"] + first["size"]
                c1 = first["clock"]
                cpu = struct.unpack("<i", first["payload"][:4])[0]

                def ins(evb):
                    return obs[:after] + evb + obs[after:]
                for sz in (0, 2, 3, 5, 8, 12, 16):
                    jobs.append({"k": "t%d_pas%d_%d" % (k, ti, sz), "cls": "payload-size", "key": "payload-size:OAs=%d" % sz, "threads": th,
                                 "obs": {ti: ins(trace.ev_bytes("OAs", c1, (struct.pack("<i", cpu) + b"\0" * 12)[:sz]))}, "expect": True})
                for sz in (0, 2, 4, 7, 9, 12, 16):
                    jobs.append({"k": "t%d_par%d_%d" % (k, ti, sz), "cls": "payload-size", "key": "payload-size:OAr=%d" % sz, "threads": th,
                                 "obs": {ti: ins(trace.ev_bytes("OAr", c1, (struct.pack("<ii", cpu, t["tid"]) + b"\0" * 8)[:sz]))}, "expect": True})
                if "mark" in meta["ovni"]:
                    for v_ in ("=", "[", "]"):
                        for sz in (0, 2, 4, 8, 11, 13, 16):
                            jobs.append({"k": "t%d_pm%d_%s_%d" % (k, ti, ord(v_), sz), "cls": "payload-size", "key": "payload-size:OM%s=%d" % (v_, sz), "threads": th,
                                         "obs": {ti: ins(trace.ev_bytes("OM" + v_, c1, (struct.pack("<qi", 3, 2 if v_ != "=" else 1) + b"\0" * 4)[:sz]))}, "expect": True})
                if "nosv" in req:
                    # a task type creation that is not a jumbo event: alone, and right after a jumbo one
                    for sz in (4, 8, 16):
                        plain = trace.ev_bytes("VYc", c1, (struct.pack("<I", 77) + b"lbl\0" + b"\0" * 8)[:sz])
                        jobs.append({"k": "t%d_pj%d_%d" % (k, ti, sz), "cls": "payload-size", "key": "nonjumbo:VYc", "threads": th, "obs": {ti: ins(plain)}, "expect": True,
                                     "umodel": ins(plain)})
                        jum = trace.ev_bytes("VYc", c1, jumbo=struct.pack("<I", 78) + b"other\0")
                        jobs.append({"k": "t%d_pk%d_%d" % (k, ti, sz), "cls": "payload-size", "key": "nonjumbo-after-jumbo:VYc", "threads": th, "obs": {ti: ins(jum + plain)}, "expect": True,
                                     "umodel": ins(jum + plain)})
            # nanos6: the same through a thread that requires it
            if "nanos6" in by_name and k % 4 == 0:
                t0 = json.loads(json.dumps(th[0]["meta"]))
                t0["ovni"]["require"]["nanos6"] = by_name["nanos6"][2]
                obs = L.obs_of(th[0])
                ok, evs, _ = L.validate_obs(obs)
                after = evs[0]["off"] + evs[0]["size"]
                c1 = evs[0]["clock"]
                jum = trace.ev_bytes("6Yc", c1, jumbo=struct.pack("<I", 5) + b"n6\0")
                plain = trace.ev_bytes("6Yc", c1, struct.pack("<I", 6) + b"xy\0\0")
                for nm, evb in (("nonjumbo:6Yc", plain), ("nonjumbo-after-jumbo:6Yc", jum + plain)):
                    jobs.append({"k": "t%d_n6_%s" % (k, nm.replace(":", "_")), "cls": "payload-size", "key": nm, "threads": th,
                                 "obs": {0: obs[:after] + evb + obs[after:]}, "meta": {0: json.dumps(t0).encode()}, "expect": True})

        for n_, job in enumerate(jobs):
            job["dir"] = "j%d" % n_

        def run_job(job):
            d = os.path.join(wd, job["dir"])
            if "copy_from" in job:
                shutil.copytree(job["copy_from"], d)
            else:
                L.write_threads(d, job["threads"], obs_override=job.get("obs"), meta_override=job.get("meta"))
            rc, out, err = trace.run_tool(L.keep_build(build), "ovniemu", [], d, timeout=20)
            files = L.files_of(d) if (job["expect"] is True and accepted(rc, out, err)) or job["cls"] == "valid" and not accepted(rc, out, err) else None
            shutil.rmtree(d, ignore_errors=True)
            return rc, (err or "")[-1500:], "emulation finished ok" in (err or "") + (out or ""), files

        results = trace.pmap(run_job, jobs)
        bad_bases = set()
        for job, (rc, err, okline, files) in zip(jobs, results):
            if job["cls"] == "valid" and not (rc == 0 and okline):
                bad_bases.add(job["base"])
                chk.notes.append("generated valid trace %s rejected by ovniemu: %s" % (job["k"], err[-300:]))
        if bad_bases:
            corr_broken.append(("valid-trace-rejected", sorted(bad_bases)))
        for job, (rc, err, okline, files) in zip(jobs, results):
            base = int(job["k"][1:].split("_")[0]) if job["k"].startswith("t") else None
            if base in bad_bases:
                continue
            chk.case(("J", job["k"], job.get("obs") and sorted((i, b) for i, b in job["obs"].items()), job.get("meta") and sorted(job["meta"].items())))
            acc = rc == 0 or okline
            exp = job["expect"]
            chk.count("%s:%s:%s" % (job["cls"], "must-reject" if exp is True else "must-accept" if exp is False else "unspecified",
                                    "accepted" if acc else "rejected"))
            if exp is True and acc:
                chk.violation("accepted:" + job["key"],
                              "ovniemu accepts (exit %s%s) a trace corrupted in class %s" % (rc, ", 'emulation finished ok'" if okline else "", job["key"]),
                              {"class": job["cls"], "key": job["key"], "exit": rc, "finished_ok_line": okline, "files": files, "stderr_tail": err[-800:],
                               "how": "write the files (hex) under a trace directory with the same relative paths and run ovniemu on it"})
        chk.coverage["traces_validated_against_impl"] = len(jobs)

        # ---- model vs implementation for the structural classes (single corrupted stream through the real stream.c and the model)
        sl = []
        sj = []
        for job in jobs:
            if "struct" in job:
                sl.append("S 0 %s" % (job["struct"].hex() or "-"))
                sj.append(job)
        si = common.batch(hx, sl, timeout=1200) if sl else []
        sm = common.batch(oracle, [l.replace("S ", "S %s " % which, 1) for l in sl], timeout=1200) if (oracle and sl) else [None] * len(sl)
        st = common.batch(oracle, [l.replace("S 0 ", "T 1 ", 1) for l in sl], timeout=1200) if (oracle and sl) else [None] * len(sl)
        for job, i, m, t in zip(sj, si, sm, st):
            v = i.split(" ")[0]
            pyvalid = L.validate_obs(job["struct"])[0]
            if (v == "end") != pyvalid:
                # the real stream layer disagrees with the format specification
                if v == "end":
                    chk.violation("stream-accepts:" + job["key"], "stream.c walks a structurally invalid stream to its end: %s" % i[:100],
                                  {"stream_obs_hex": job["struct"].hex(), "impl": i[:300], "how": "harness/loader_h.c: S 0 <hex>"})
                else:
                    corr_broken.append(("valid-stream-rejected", job["struct"].hex()[:200], i[:100]))
            if t is not None and (t.split(" ")[0] == "valid") != pyvalid:
                corr_broken.append(("coq-spec-vs-python-validator", job["struct"].hex()[:200], t[:80]))
            if m is not None and m.split(" ")[0] in ("end", "err", "loaderr") and m != i:
                corr_broken.append(("S", job["struct"].hex()[:200], i[:100], m[:100]))
        chk.count("structural:model-vs-stream.c", len(sl))
        # non-jumbo type creation through the model's emulate (jumbo-checking handler)
        ul = []
        uj = []
        for job, res in zip(jobs, results):
            if "umodel" in job:
                ul.append("U %s 79,86 %s" % (which, job["umodel"].hex()))
                uj.append((job, res))
        um = common.batch(oracle, ul) if (oracle and ul) else []
        for (job, (rc, err, okline, files)), m in zip(uj, um):
            # the model has no handlers but the jumbo check: it can only be compared on rejection for THAT reason
            impl_jumbo_reject = "expecting a jumbo event" in err
            if (m == "errors") != impl_jumbo_reject and not (rc != 0 and not impl_jumbo_reject and m == "errors"):
                corr_broken.append(("U", job["key"], "impl_rc=%s jumbo_msg=%s" % (rc, impl_jumbo_reject), m))
        chk.count("nonjumbo:model-vs-ovniemu", len(ul))
        chk.sample({"op": "corruption", "class": jobs[len(jobs) // 2]["key"], "expect_reject": jobs[len(jobs) // 2]["expect"],
                    "ovniemu_exit": results[len(jobs) // 2][0]})
        if sl:
            chk.sample({"op": "structural class through stream.c and the model", "bytes_hex": sj[len(sj) // 2]["struct"].hex()[:160],
                        "impl": si[len(sj) // 2][:100], "model": (sm[len(sj) // 2] or "")[:100]})
    finally:
        shutil.rmtree(wd, ignore_errors=True)

    if corr_broken:
        chk.coverage["correspondence_disagreements"] = [repr(x)[:300] for x in corr_broken[:10]]
        if True:
            chk.violation("broken-correspondence", "model and implementation disagree on %d inputs, none of which violates the property's spec" % len(corr_broken),
                          {"correspondence": "loader model vs ovniemu / stream.c", "disagreements": [repr(x)[:400] for x in corr_broken[:20]]},
                          found_input=False)
    chk.coverage["rule"] = ("valid traces from the generator (1-3 threads, OHx..OHe, flush/sort/burst/pause/affinity/mark/jumbo VYc); single corruptions: truncation at every "
                            "byte offset (traces <= 600 bytes; otherwise every offset of the last two events + 60 sampled), swap of every adjacent pair with different clocks, "
                            "deletion and alteration of every metadata key, each header byte altered three ways, substitution of an MCV of a model nobody requires, unknown MCVs, "
                            "wrong payload sizes (OHx<4, OAs!=4, OAr!=8, OM*!=12, non-jumbo VYc/6Yc alone and after a jumbo event); a corruption is 'must-reject' only when "
                            "the independent validator says the result is invalid per the property; distinct = distinct files")
