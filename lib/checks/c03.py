"""C03 - the emulator replays all streams as one time-ordered, loss-free sequence.

Coq: Emu/HeapDefs.v + Emu/PlayerDefs.v (model + Spec), Proofs/HeapProofs.v + Proofs/PlayerProofs.v,
Props/Properties_C03.v.  Tie: (a) the array-heap model against the real src/include/heap.h in
process after every operation; (b) the player model against the real ovnidump / ovniemu on
generated traces.  The implementation's outputs are judged by the independent deciders
`heap_spec` and `merge_spec` below (no heap, no model inside)."""
import glob
import hashlib
import itertools
import json
import os
import re
import shutil
import struct
import tempfile

from vf import common, trace

LEVEL = "proof"

MAXGATE = 3600 * 10 ** 9
KEY_DUMP_OFFSETS = "ovnidump-ignores-clock-offsets"


# ------------------------------------------------------------------ heap: scripts + independent decider

def heap_script(ops):
    """ops: list of ('i', key) | ('p',) -> protocol line; every insert gets a fresh id"""
    out = []
    nid = 0
    for op in ops:
        if op[0] == "i":
            out.append("i%d.%d" % (op[1], nid))
            nid += 1
        else:
            out.append("p")
    return "H " + ",".join(out)


def heap_spec(ops, answer):
    """Independent decider for one script against the implementation's answer.
    Demands: audit ok after every op; the set of ids in the heap is the set inserted and not yet
    popped; a pop returns an id whose key is minimal among the content (none iff empty).
    Returns None or a text."""
    items = answer.split(" ")
    if len(items) != len(ops):
        return "answer has %d items for %d ops: %r" % (len(items), len(ops), answer[-80:])
    content = {}
    nid = 0
    for n, (op, it) in enumerate(zip(ops, items)):
        f = it.split("/")
        if len(f) != 3:
            return "op %d: malformed answer %r" % (n, it)
        popped, ids, audit = f
        if op[0] == "i":
            content[nid] = op[1]
            nid += 1
            if popped != "-":
                return "op %d: insert reported a pop" % n
        else:
            if not content:
                if popped != "-":
                    return "op %d: pop on an empty heap returned %s" % (n, popped)
            else:
                if popped == "-":
                    return "op %d: pop on a non-empty heap returned nothing" % n
                pid = int(popped)
                if pid not in content:
                    return "op %d: popped id %d is not in the heap" % (n, pid)
                if content[pid] != min(content.values()):
                    return "op %d: popped key %d but the minimum is %d" % (n, content[pid], min(content.values()))
                del content[pid]
        got = [] if ids == "-" else ids.split(".")
        if sorted(got) != sorted(str(x) for x in content):
            return "op %d: heap content %s differs from the expected set %s" % (n, got, sorted(content))
        if audit != "1":
            return "op %d: pointer structure inconsistent (parent/left/right vs position)" % n
    return None


def heap_scripts_exhaustive(nkeys, length):
    alphabet = [("i", k) for k in range(nkeys)] + [("p",)]
    for seq in itertools.product(alphabet, repeat=length):
        yield list(seq)


def heap_scripts_random(rng, n, maxlen):
    for k in range(n):
        r = rng.fork("heap%d" % k)
        L = r.range(maxlen // 4, maxlen)
        nk = r.choice([1, 2, 3, 5, 20, 1000])
        ppop = r.choice([20, 35, 50, 65])
        ops = []
        for _ in range(L):
            if r.below(100) < ppop:
                ops.append(("p",))
            else:
                ops.append(("i", r.below(nk)))
        # drain at the end so that deep sift-downs happen
        ops += [("p",)] * r.range(0, 40)
        yield ops


# ------------------------------------------------------------------ e2e: case generator

def hostname(loom):
    return loom.split(".")[0]


def relpath(s):
    return "loom.%s/proc.%d/thread.%d" % (s["loom"], s["pid"], s["tid"])


def gen_case(r, k, kind):
    """kind 'emu': valid for ovniemu (thread life-cycle events), run through ovnidump and ovniemu;
       kind 'dump': arbitrary events with a 4-byte id payload, ovnidump -x only."""
    # host names that are prefixes of one another, and loom suffixes that differ only in leading zeros (both legal:
    # the offset table is matched by the exact host name, and streams are ordered by the exact path)
    hosts = r.shuffle(["h1", "h10", "h2", "h3", "nodeA", "node1", "node10", "Node1", "node01", "1", "10"])[: r.range(1, 3)]   # (clkoff: case/zero variants)
    if r.chance(1, 5):
        hosts = r.choice([["node10", "node1"], ["h10", "h1"], ["h1", "h10"]])
    looms = []
    for h in hosts:
        for suf in r.shuffle(["a", "b", "0", "1", "01", "001"])[: r.choice([1, 1, 1, 2, 3])]:
            looms.append("%s.%s" % (h, suf))
    if r.chance(1, 6):
        looms.append(hosts[0])            # loom name without a dot: hostname = whole name
    tie_family = (kind == "dump") and r.chance(1, 6)      # (the emu decider names rows by tid: dump cases only)
    if tie_family:
        # looms whose names differ only in leading zeros of a number, each with a stream of the same pid and tid: the
        # paths are distinct, but any "natural" (numeric) comparison of paths ties them
        hosts = hosts[:1]
        looms = ["%s.%s" % (hosts[0], x) for x in r.shuffle(["1", "01", "001"])[: r.range(2, 3)]]
    nstreams = r.choice([1, 2, 2, 3, 3, 4, 5, 6, 8, 10, 12])
    flavour = r.below(100)
    sloom = [r.choice(looms) for _ in range(nstreams)]
    if tie_family:
        nstreams = len(looms)
        sloom = list(looms)
    looms = [l for l in looms if l in sloom]
    hosts = [h for h in hosts if any(hostname(l) == h for l in looms)]   # a table entry without loom is refused
    # offsets per host
    mag = r.choice([0, 3, 3, 50, 1000, 10 ** 6, 10 ** 12, 2 ** 45])
    offsets = {}
    if flavour >= 10:                      # 10%: no table at all
        for h in hosts:
            if r.chance(3, 4):
                offsets[h] = r.range(-mag, mag) if mag else 0
        if not offsets:
            offsets[hosts[0]] = r.range(-mag, mag) if mag else 0
    else:
        offsets = None
    off_of = lambda loom: (offsets or {}).get(hostname(loom), 0)
    base = r.choice([0, 7, 1000, 10 ** 9, 10 ** 15]) + max([0] + [off_of(l) for l in looms])
    span = r.choice([0, 2, 2, 5, 5, 10, 30, 1000, 10 ** 6])
    tids = r.shuffle(list(range(1, 10)) + list(range(10, 100, 7)) + list(range(100, 1000, 61)) + [1000, 12345])[:nstreams]
    streams = []
    for i in range(nstreams):
        loom = sloom[i]
        n = r.choice([0, 0, 1, 2, 2, 3, 3, 4, 5, 6, 8, 10, 15, 25, 40])
        cor = sorted(base + r.range(0, span) for _ in range(n))
        pid = 100 * (looms.index(loom) + 1) + r.below(2)
        if tie_family:
            pid = 100
            n = max(n, 2)
            cor = sorted(base + r.range(0, min(span, 2)) for _ in range(n))      # many equal clocks across the looms
        streams.append({"loom": loom, "pid": pid, "tid": tids[0] if tie_family else tids[i], "clocks": [c - off_of(loom) for c in cor]})
    expect = "valid"
    cand = [s for s in streams if len(s["clocks"]) >= 2]
    if 10 <= flavour < 20 and cand:        # one stream goes backwards
        s = r.choice(cand)
        j = r.range(1, len(s["clocks"]) - 1)
        s["clocks"][j] = max(0, s["clocks"][j - 1] - r.choice([1, 1, 2, span + 1]))
        if s["clocks"][j] < s["clocks"][j - 1]:
            expect = "backwards"
    elif 20 <= flavour < 27:               # corrected clock of a first event below 0
        s = r.choice(streams)
        if s["clocks"]:
            h = hostname(s["loom"])
            if offsets is None:
                offsets = {}
            lo = min(min(x["clocks"]) for x in streams if x["clocks"] and hostname(x["loom"]) == h)
            offsets[h] = -(lo + r.choice([1, 1, 2, 1000]))
            expect = "negative"
    elif 27 <= flavour < 35 and len([s for s in streams if s["clocks"]]) >= 2:   # gate
        live = [s for s in streams if s["clocks"]]
        s = r.choice(live)
        d = r.choice([MAXGATE - 1 - span, MAXGATE - span, MAXGATE, MAXGATE + 1, MAXGATE + 1 + span, 2 * MAXGATE + 5])
        s["clocks"] = [c + d for c in s["clocks"]]
        expect = "gate?"
    order = r.shuffle(list(range(nstreams)))
    case = {"k": k, "kind": kind, "streams": streams, "offsets": offsets, "order": order, "expect": expect}
    # ---- clkoff: the file itself; now and then an entry whose host has no loom (ovniemu must refuse the trace)
    rt = r.fork("table")
    if offsets is not None and kind == "emu" and expect == "valid" and rt.chance(1, 20):
        ghost = rt.choice([hosts[0] + "0", hosts[0][:-1] or "z", hosts[0].swapcase(), "ghost", hosts[0] + ".dom"])
        if ghost not in [hostname(l) for l in looms] and ghost != hosts[0]:
            offsets[ghost] = rt.choice([0, 5, -5])
            case["expect"] = "table-refused"
    tb = case_table(rt, case)
    case["table"] = None if tb is None else tb.decode("latin1")
    # ---- a stream that is not a thread (ovni.part = "other", no events): the emulator ignores it with a warning, the player
    # still sees it; it must change nothing, wherever its directory sorts among the thread streams
    rx = r.fork("extra")
    if case["expect"] in ("valid", "backwards", "negative") and rx.chance(1, 5):
        s0 = rx.choice(streams)
        case["extra_stream"] = rx.choice(["aux.0", "loom.%s/aux" % s0["loom"], "loom.%s/proc.%d/other.1" % (s0["loom"], s0["pid"]),
                                          "loom.%s/proc.%d/thread.%d.x" % (s0["loom"], s0["pid"], s0["tid"]), "zz.last"])
    return case


def stream_events(case, s):
    """[(clock, mcv, payload bytes)] of a stream"""
    cl = s["clocks"]
    n = len(cl)
    evs = []
    if case["kind"] == "dump":
        for i, c in enumerate(cl):
            evs.append((c, "Z%c%c" % ("abc"[i % 3], "xy"[(i // 3) % 2]), struct.pack("<I", i)))
        return evs
    for i, c in enumerate(cl):
        if i == 0:
            evs.append((c, "OHx", struct.pack("<iii", s["cpu"], s["tid"], 0)))
        elif i == n - 1:
            evs.append((c, "OHe", b""))
        elif (n - 2) % 2 == 1 and i == n - 2:
            evs.append((c, "OHc", b""))
        else:
            evs.append((c, "OHp" if i % 2 == 1 else "OHr", b""))
    return evs


def prepare(case):
    """assign CPUs (one per thread inside its loom)"""
    per = {}
    for s in case["streams"]:
        s["cpu"] = per.get(s["loom"], 0)
        per[s["loom"]] = s["cpu"] + 1
    case["ncpu"] = per
    if "table" not in case:                                   # clkoff: corpus cases carry the dict only
        case["table"] = None if case["offsets"] is None else table_file(TABLE_HEADER, [
            b"%-10d %-20s %-20d %-20f %-20f" % (i, h.encode(), o, float(o), 0.0) for i, (h, o) in enumerate(case["offsets"].items())]).decode("latin1")
    return case


def write_case(case, d):
    tr = trace.Trace()
    seen = set()
    for s in case["streams"]:
        cpus = None
        if s["loom"] not in seen:
            seen.add(s["loom"])
            cpus = [(i, i) for i in range(case["ncpu"][s["loom"]])]
        meta = trace.thread_meta(s["tid"], s["pid"], s["loom"], cpus=cpus)
        evs = [trace.ev_bytes(m, c, p) for (c, m, p) in stream_events(case, s)]
        tr.add_thread(s["loom"], s["pid"], s["tid"], meta, evs)
    tr.write(d, order=case["order"])
    if case.get("extra_stream"):
        xd = os.path.join(d, case["extra_stream"])
        os.makedirs(xd, exist_ok=True)
        with open(os.path.join(xd, "stream.obs"), "wb") as f:
            f.write(trace.STREAM_HEADER)
        with open(os.path.join(xd, "stream.json"), "w") as f:
            json.dump({"version": 3, "ovni": {"part": "other", "lib": {"version": "1.11.0", "commit": "verif"}}}, f)
    if case.get("table") is not None:                      # clkoff: the bytes prepared by case_table (the model reads the same)
        with open(os.path.join(d, "clock-offsets.txt"), "wb") as f:
            f.write(case["table"].encode("latin1"))


DUMP_RE = re.compile(r"^\s*(-?\d+)  (...)  (\S+)  (.*)$")


def run_once(build, d, case, order):
    res = {}
    try:
        c2 = dict(case)
        c2["order"] = order
        write_case(c2, d)
        rc, o, e = trace.run_tool(build, "ovnidump", ["-x"] if case["kind"] == "dump" else [], d)
        seq = []
        bad = None
        for ln in o.split("\n"):
            if not ln:
                continue
            m = DUMP_RE.match(ln)
            if not m:
                bad = ln
                continue
            seq.append((m.group(3), int(m.group(1)), m.group(2), m.group(4)))
        res["dump"] = {"rc": rc, "seq": seq, "bad": bad, "err": e[-600:]}
        if case["kind"] == "emu":
            rc, o, e = trace.run_tool(build, "ovniemu", [], d)
            rows = {}
            prv = []
            try:
                n = 0
                for ln in open(os.path.join(d, "thread.row")):
                    m = re.match(r"TH \d+\.(\d+)\s*$", ln)
                    if m:
                        n += 1
                        rows[n] = int(m.group(1))
                _, recs = trace.parse_prv(os.path.join(d, "thread.prv"))
                prv = [(rows.get(row), t) for (t, row, ty, v) in recs if ty == 4]
            except OSError:
                pass
            mp = re.search(r"processed (\d+) input events", e)
            if "clock goes backwards" in e:
                v = "err-stream"
            elif "backwards jump in time" in e:
                v = "err-player"
            elif "clock gate" in e:
                v = "err-gate"
            elif "emulation aborts" in e or not mp:
                v = "err-other"
            else:
                v = "ok"
            res["emu"] = {"rc": rc, "verdict": v, "prv": prv, "nproc": int(mp.group(1)) if mp else None,
                          "err": e[-1500:]}
    finally:
        shutil.rmtree(d, ignore_errors=True)
    return res


def run_case(build, wd, wd2, case):
    """main run in wd (creation order case['order']); second run of the same streams in wd2 (a
    different file system when available) with the directories created in the opposite order"""
    res = run_once(build, os.path.join(wd, "c%d" % case["k"]), case, case["order"])
    if wd2:
        res["second"] = run_once(build, os.path.join(wd2, "c%d" % case["k"]), case, list(reversed(case["order"])))
    return res


def second_workdir():
    """tmpfs lists a directory in reverse creation order, ext4 in hash order: two genuinely different
    enumerations of the same streams"""
    for base in ("/dev/shm",):
        if os.path.isdir(base) and os.access(base, os.W_OK):
            try:
                return tempfile.mkdtemp(prefix="ovni-verif-c03-", dir=base)
            except OSError:
                pass
    return None


# ------------------------------------------------------------------ e2e: independent spec decider

def side_conditions(case, corrected):
    """which hypotheses of the property hold for this input"""
    off = lambda s: (case["offsets"] or {}).get(hostname(s["loom"]), 0) if corrected else 0
    sorted_ok = all(all(a <= b for a, b in zip(s["clocks"], s["clocks"][1:])) for s in case["streams"])
    nonneg = all(s["clocks"][0] + off(s) >= 0 for s in case["streams"] if s["clocks"])
    live = sorted([s for s in case["streams"] if s["clocks"]], key=lambda s: relpath(s).encode())
    gate = True
    if live:
        t0 = live[0]["clocks"][0] + off(live[0])
        gate = all(abs(t0 - (s["clocks"][0] + off(s))) <= MAXGATE for s in live)
    return sorted_ok, nonneg, gate


def merge_spec(case, seq, with_offsets, times=None):
    """seq: the implementation's delivery order as [(relpath, index-in-stream)].
    Independent statement of C03: permutation of all events, per-stream order, non-decreasing
    corrected time; times (if given) = corrected - corrected of the first.  Returns None or text."""
    by = {relpath(s): s for s in case["streams"]}
    off = lambda s: (case["offsets"] or {}).get(hostname(s["loom"]), 0) if with_offsets else 0
    nxt = {rp: 0 for rp in by}
    cor = []
    for n, (rp, idx) in enumerate(seq):
        if rp not in by:
            return "item %d: unknown stream %s" % (n, rp)
        if idx != nxt[rp]:
            return "item %d: stream %s delivers its event %s where %d is due (order inside the stream / exactly once)" % (n, rp, idx, nxt[rp])
        nxt[rp] += 1
        s = by[rp]
        if idx >= len(s["clocks"]):
            return "item %d: stream %s has no event %d" % (n, rp, idx)
        cor.append(s["clocks"][idx] + off(s))
    for rp, s in by.items():
        if nxt[rp] != len(s["clocks"]):
            return "stream %s: %d of %d events delivered (loss)" % (rp, nxt[rp], len(s["clocks"]))
    for n in range(1, len(cor)):
        if cor[n] < cor[n - 1]:
            return "item %d: corrected time goes back %d -> %d (%s after %s)" % (n, cor[n - 1], cor[n], seq[n][0], seq[n - 1][0])
    if times is not None:
        for n, (c, t) in enumerate(zip(cor, times)):
            if t != c - cor[0]:
                return "item %d: Paraver time %d, corrected - first = %d" % (n, t, c - cor[0])
    return None


def index_dump_seq(case, seq):
    """ovnidump lines -> [(relpath, index in stream)] by matching (clock, mcv[, payload]) against the
    next undelivered events of the stream; an unmatched line gets index None."""
    by = {relpath(s): stream_events(case, s) for s in case["streams"]}
    used = {rp: set() for rp in by}
    out = []
    for (rp, clock, mcv, rest) in seq:
        idx = None
        for i, (c, m, p) in enumerate(by.get(rp, [])):
            if i in used[rp]:
                continue
            if c == clock and m == mcv:
                if case["kind"] == "dump" and rest.strip() != "".join(":%02x" % b for b in p):
                    continue
                idx = i
                break
        if idx is not None:
            used[rp].add(idx)
        out.append((rp, idx))
    return out


def model_line(case, mode):
    items = []
    for i in case["order"]:
        s = case["streams"][i]
        off = case["model_offs"][i] if case.get("model_offs") is not None else (case["offsets"] or {}).get(hostname(s["loom"]), 0)   # clkoff
        evs = ",".join("%d.%d" % (c, j) for j, c in enumerate(s["clocks"])) or "-"
        items.append("%s:%d:%s" % (relpath(s).encode().hex(), off, evs))
    return "R %s %s" % (mode, ";".join(items))


def parse_model(ans):
    v, rest = ans.split(" ", 1)
    seq = []
    if rest != "-":
        for it in rest.split(","):
            rp, rc, pay, sc, dc = it.split("@")
            seq.append((bytes.fromhex(rp).decode(), int(rc), int(pay), int(sc), int(dc)))
    return v, seq


def case_public(case):
    return {"kind": case["kind"], "offsets": case["offsets"], "clock_offsets_txt": case.get("table"), "creation_order": case["order"], "expect": case["expect"],
            "extra_non_thread_stream_dir": case.get("extra_stream"),
            "streams": [{"relpath": relpath(s), "clocks": s["clocks"]} for s in case["streams"]]}


def case_key(case):
    return hashlib.md5(json.dumps(case_public(case), sort_keys=True).encode()).hexdigest()[:12]


def pbatch(exe, lines, timeout=1800):
    """common.batch over interleaved chunks in parallel (long scripts are spread evenly)"""
    n = max(1, min(len(lines) // 50, common.NCPU * 3))
    parts = trace.pmap(lambda j: common.batch(exe, lines[j::n], timeout=timeout), list(range(n)))
    out = [None] * len(lines)
    for j, part in enumerate(parts):
        out[j::n] = part
    return out



# ================================================================== BEGIN clkoff (clock-offset table: Emu/ClkoffDefs.v)
# The table model (extracted: oracle/clkoff_drv.ml) is tied (a) in process to the real clkoff_load / loom_init_begin /
# parse_clkoff_entry (harness/clkoff_h.c) on generated table files, (b) end to end: the offsets of the e2e cases come from
# the model applied to the very bytes of clock-offsets.txt.  `table_lookup` is the independent reading of a WELL-FORMED
# table used to judge the implementation ("the offset of the entry whose host IS the loom's host"): no model inside.

from decimal import Decimal

TABLE_HEADER = b"%-10s %-20s %-20s %-20s %-20s" % (b"rank", b"hostname", b"offset_median", b"offset_mean", b"offset_std")

HOST_POOL = ["node1", "node10", "node100", "node01", "node001", "Node1", "NODE1", "nodE1", "node1a", "anode1", "1node", "n", "N",
             "0", "00", "1", "01", "10", "x86-64", "h_1", "h-1", "node", "nod", "node11", "xeon01", "xeon1", "XEON01", "xeon010",
             "a" * 120, "a" * 121, "\xe9t\xe9", "node1-ib0", "node1_", "_node1", "node1:0", "node1,2", "e5", "inf", "nan", "0x1"]


def py_hostname(loom):
    """loom.c set_hostname: up to the first '.'"""
    return loom.split(".")[0]


def table_lookup(table):
    """Independent reading of a well-formed table (bytes): {host: offset}; offset = median truncated toward zero.
    None if the file is not 'header + lines of 5 blank-separated columns' (then nothing is demanded)."""
    if table is None:
        return {}
    lines = table.split(b"\n")
    if lines and lines[-1] == b"":
        lines.pop()
    out = {}
    for ln in lines[1:]:
        if ln == b"":                     # clkoff.c documents that an empty line is skipped
            continue
        f = ln.split()
        if len(f) != 5:
            return None
        try:
            int(f[0])
            med = Decimal(f[2].decode("latin1"))
            Decimal(f[3].decode("latin1"))
            Decimal(f[4].decode("latin1"))
        except Exception:
            return None
        h = f[1].decode("latin1")
        if h in out or not med.is_finite():
            return None
        out[h] = int(med)                 # int(Decimal) truncates toward zero, as (int64_t) does
    return out


def fmt_median(r, v, allow_frac=True):
    """text of a median whose (int64_t) value is v, inside the model's exact domain"""
    sign = "-" if v < 0 else r.choice(["", "", "", "+"])
    a = abs(v)
    t = str(a)
    if r.chance(1, 8):
        t = "0" * r.range(1, 3) + t
    if allow_frac and a < 2 ** 40 and r.chance(1, 3):
        t += "." + r.choice(["", "0", "000000", "5", "25", "999", "4999", "000001", "99975"])
    elif r.chance(1, 10):
        t += r.choice([".", ".0", ".000000"])
    if v == 0 and r.chance(1, 4):
        sign = r.choice(["-", "+", ""])
        t = r.choice(["0", ".5", "0.75", "00", "0.000000", ".0"])
    return sign + t


def render_rows(r, rows, style):
    """rows: [(index text, host, median text, mean text, std text)] -> list of lines (bytes, no newline)"""
    out = []
    for (i, h, med, mean, std) in rows:
        if style == "sync":
            ln = "%-10s %-20s %-20s %-20s %-20s" % (i, h, med, mean, std)
        elif style == "compact":
            ln = " ".join([i, h, med, mean, std])
        elif style == "tabs":
            ln = "\t".join([i, h, med, mean, std])
        else:
            ln = "  " + "   ".join([i, h, med, mean, std]) + " \t"
        out.append(ln.encode("latin1"))
    return out


def gen_table_case(r, k):
    """a well-formed table with tricky host names + looms; returns dict"""
    nh = r.choice([1, 2, 2, 3, 3, 4, 6])
    if r.chance(1, 2):
        base = r.choice(["node1", "xeon01", "n", "0", "h-1", "Node1"])
        fam = [base, base + "0", base + "1", base[:-1] or "z", base.upper(), base.lower(), base.swapcase(), "a" + base, base + "a", "0" + base,
               base + "00", base + "-ib"]
        fam = list(dict.fromkeys(fam))
        hosts = r.shuffle(fam)[:nh]
    else:
        hosts = r.shuffle(list(HOST_POOL))[:nh]
    mag = r.choice([0, 3, 1000, 10 ** 6, 10 ** 12, 2 ** 40 - 1, 2 ** 45, 2 ** 53])
    rows = []
    for i, h in enumerate(hosts):
        v = r.range(-mag, mag) if mag else 0
        if r.chance(1, 10):
            v = r.choice([0, 1, -1, 2 ** 53, -2 ** 53, 2 ** 40 - 1, -(2 ** 40 - 1)])
        idx = str(i) if not r.chance(1, 10) else r.choice(["-1", "+3", "007", str(2 ** 31), str(10 ** 12)])
        rows.append((idx, h, fmt_median(r, v), "%f" % (float(v) + 0.1), r.choice(["0.000000", "135.286341", "1", "0"])))
    # looms: 1-3 per host in the table, plus looms of hosts that are not in the table (related names first)
    looms = []
    for h in hosts:
        for suf in r.shuffle(["", ".0", ".1", ".a.b", ".01", "." + h, ".."])[: r.choice([1, 1, 2, 3])]:
            looms.append(h + suf)
    others = [x for x in r.shuffle(list(HOST_POOL) + [h + "0" for h in hosts] + [h[:-1] for h in hosts if len(h) > 1] +
                                   [h.swapcase() for h in hosts] + ["x" + h for h in hosts]) if x not in hosts]
    for x in others[: r.choice([0, 0, 1, 2, 4])]:
        looms.append(x + r.choice(["", ".0", ".z"]))
    unknown = None
    if r.chance(1, 6) and len(hosts) >= 1:
        unknown = r.choice(hosts)                                  # an entry whose host has no loom: must be refused
        looms = [l for l in looms if py_hostname(l) != unknown]
    looms = r.shuffle(list(dict.fromkeys(looms)))
    style = r.choice(["sync", "sync", "compact", "tabs", "lead"])
    header = r.choice([TABLE_HEADER, TABLE_HEADER, b"# table", b"", b"0 node1 5 5 5", b"x" * 1022])
    return {"k": k, "rows": rows, "looms": looms, "style": style, "header": header, "unknown": unknown,
            "order": r.shuffle(list(range(len(rows))))}


def table_file(header, lines, trailing=True):
    return header + b"\n" + b"\n".join(lines) + (b"\n" if trailing and lines else b"")


JUNK = ["abc", "1e", "1e+", "0x", "0x.", "0xg", "nan", "NaN", "inf", "INF", "infinity", "Infinity", "infinit", "infx", "nan(1)", "-", "+", ".", "-.",
        "1.5.3", "1e5", "1E5", "1e-5", "0x1p3", "0x1P-2", "0x10", "1,5", "--1", "+-1", "1e400", "99999999999999999999", "0.99999999999999999999",
        "1..2", ".e1", "e1", "1e1e1", "0x1.8", "0X1A", "1_000", "١", "1\v2", "5host"]


def mutate_table(r, base):
    """a malformed (or merely unusual) file derived from a well-formed case: (bytes, class)"""
    lines = render_rows(r, base["rows"], base["style"])
    header = base["header"]
    kind = r.choice(["drop-col", "extra-col", "junk-field", "junk-field", "empty-line", "ws-line", "crlf", "long-line", "long-host", "dup-host",
                     "no-header", "header-only", "empty-file", "no-final-newline", "nul-byte", "glue", "big-index", "long-header",
                     "ws-line-first", "only-newlines", "form-feed"])
    j = r.below(len(lines))
    f = lines[j].split()
    if kind == "drop-col":
        n = r.range(0, 4)
        lines[j] = b" ".join(f[:n])
    elif kind == "extra-col":
        lines[j] = lines[j] + b" " + r.choice([b"7", b"x", b"1 2 3", b"# comment"])
    elif kind == "junk-field":
        c = r.choice([0, 2, 2, 3, 4])
        f[c] = r.choice(JUNK).encode("utf8")
        lines[j] = b" ".join(f)
    elif kind == "empty-line":
        lines.insert(j, b"")
    elif kind in ("ws-line", "ws-line-first"):
        lines.insert(0 if kind == "ws-line-first" else j, r.choice([b" ", b"\t", b"\r", b"   \t ", b"\v", b"\x0c"]))
    elif kind == "crlf":
        lines = [l + b"\r" for l in lines]
        if r.chance(1, 2):
            lines.insert(j, b"\r")
    elif kind == "long-line":
        pad = b" " * r.choice([900, 1000, 1015, 1022, 1023, 1024, 1030, 2100])
        c = r.range(0, 4)
        lines[j] = b" ".join(f[:c]) + pad + b" ".join(f[c:])
    elif kind == "long-host":
        f[1] = b"h" * r.choice([1000, 1010, 1018, 1019, 1020, 1021, 1022, 1023, 1024, 1100, 2046, 2047])
        lines[j] = b" ".join(f)
    elif kind == "dup-host":
        g = list(f)
        g[0] = b"99"
        g[2] = r.choice([f[2], b"12345"])
        lines.insert(r.below(len(lines) + 1), b" ".join(g))
    elif kind == "no-header":
        return b"\n".join(lines) + b"\n", kind
    elif kind == "header-only":
        return header + (b"\n" if r.chance(1, 2) else b""), kind
    elif kind == "empty-file":
        return b"", kind
    elif kind == "no-final-newline":
        return table_file(header, lines, trailing=False), kind
    elif kind == "nul-byte":
        pos = r.below(len(lines[j]) + 1)
        lines[j] = lines[j][:pos] + b"\x00" + lines[j][pos:]
    elif kind == "glue":
        lines[j] = f[0] + f[1] + b" " + b" ".join(f[2:])
    elif kind == "big-index":
        f[0] = r.choice([b"9223372036854775807", b"9223372036854775808", b"-9223372036854775808", b"-9223372036854775809", b"1" * 30])
        lines[j] = b" ".join(f)
    elif kind == "long-header":
        header = b"h" * r.choice([1022, 1023, 1024, 1500]) + r.choice([b"", b" 9 tailhost 4 4 4"])
    elif kind == "only-newlines":
        lines = [b""] * r.range(1, 4) + lines[:j]
    elif kind == "form-feed":
        lines[j] = lines[j].replace(b" ", r.choice([b"\x0c", b"\v", b"\r"]), 1)
    return table_file(header, lines), kind


def tline(table, looms):
    return "T %s %s" % ("N" if table is None else (table.hex() or "-"), ",".join(l.encode("latin1").hex() for l in looms) or "-")


def norm_impl_vs_model(impl, modl):
    """None when the harness answer equals the model's, up to the parts the model leaves unspecified"""
    if modl.startswith("load-fail"):
        return None if impl == "load-fail" else "model refuses the file (%s), implementation: %s" % (modl, impl[:200])
    if " | " not in impl or " | " not in modl:
        return "implementation %r, model %r" % (impl[:200], modl[:200])
    il, ia = impl.split(" | ", 1)
    ml, ma = modl.split(" | ", 1)
    ie = il.split(" ", 1)
    me = ml.split(" ", 1)
    if ie[0] != me[0]:
        return "entry count: implementation %s, model %s" % (ie[0], me[0])
    ii = ie[1].split(";") if len(ie) > 1 and ie[1] else []
    mm = me[1].split(";") if len(me) > 1 and me[1] else []
    for a, b in zip(ii, mm):
        fa, fb = a.split(":"), b.split(":")
        if fa[:2] != fb[:2] or (fb[2] != "?" and fa[2] != fb[2]):
            return "entry: implementation %s, model %s" % (a[:80], b[:80])
    if ma == "unspec":
        return None
    if ma.startswith("apply-fail"):
        return None if ia == "apply-fail" else "model refuses an entry (%s), implementation: %s" % (ma, ia[:200])
    return None if ia == ma else "offsets: implementation %s, model %s" % (ia[:200], ma[:200])


def table_spec(tc, table, answer):
    """Independent decider for a WELL-FORMED table against the implementation's answer: every loom gets the median
    (truncated) of the entry whose name IS its host name, 0 without entry."""
    want = table_lookup(table)
    if want is None:
        return "harness: the generated table is not well-formed"
    hosts = set(py_hostname(l) for l in tc["looms"])
    if any(h not in hosts for h in want):
        return None        # the property text demands nothing here; that ovniemu refuses is checked against the model (correspondence)
    if " | offs=" not in answer:
        return "a well-formed table is refused: %s" % answer[-200:]
    got = answer.split(" | offs=", 1)[1]
    got = [int(x) for x in got.split(",")] if got else []
    exp = [want.get(py_hostname(l), 0) for l in tc["looms"]]
    if got != exp:
        bad = [(l, g, e) for l, g, e in zip(tc["looms"], got, exp) if g != e][:4]
        return "loom offsets differ from the entry of the loom's host (loom, got, expected): %r" % (bad,)
    return None


def case_table(r, case):
    """bytes of clock-offsets.txt for an e2e case (None: no file), lines in shuffled order and varied layout"""
    if case["offsets"] is None:
        return None
    items = list(case["offsets"].items())
    rows = []
    for i, (h, o) in enumerate(items):
        rows.append((str(i), h, fmt_median(r, o), "%f" % float(o), "%f" % 0.0))
    rows = r.shuffle(rows) if r.chance(2, 3) else rows
    lines = render_rows(r, rows, r.choice(["sync", "sync", "sync", "compact", "tabs", "lead"]))
    if r.chance(1, 8):
        lines.insert(r.below(len(lines) + 1), b"")            # an empty line is skipped
    return table_file(TABLE_HEADER, lines)

# ================================================================== END clkoff

# ------------------------------------------------------------------ the check

def run(chk):
    chk.trusted_base = common.BASE_TRUST + [
        "translate/units/_cmp.py + translate/c2gallina.py (clang JSON AST): the comparison part of the C comparators (player.c stream_cmp, trace.c cmp_streams) is translated to Gallina on every run, the statements that fetch the compared integers are pinned as normalised source text, not translated",
        "hand model of heap.h as an array heap (Emu/HeapDefs.v): compared with the real heap.h after every operation (positions through heap_get + pointer audit)",
        "hand model of player.c/stream.c clock handling and trace.c ordering (Emu/PlayerDefs.v): compared with the real ovnidump/ovniemu on generated traces",
        "extraction (ExtrOcamlBasic only) + OCaml 4.13 + oracle/merge_drv.ml; harness/heap_h.c; trace writer and PRV/ovnidump parsers in lib/",
        "hand model of the clock-offset table (Emu/ClkoffDefs.v: fgets/sscanf of clkoff.c character by character as glibc 2.36 does in the C locale, "
        "set_hostname of loom.c, parse_clkoff_entry/init_offsets of system.c): compared with the real clkoff_load/loom_init_begin/parse_clkoff_entry in process "
        "(harness/clkoff_h.c, oracle/clkoff_drv.ml) and end to end (the offsets of the e2e model come from the model applied to the bytes of clock-offsets.txt)",
        "double conversion of the median: modelled only where strtod + (int64_t) is exact whatever the rounding (no exponent; fraction zero and |x| <= 2^53, or "
        "|x| < 2^40 and fraction <= 1 - 2^-12); other medians are OUnspec in the model and not compared; the copy loom -> stream (second loop of init_offsets) "
        "and the optional-file logic of load_clock_offsets are covered end to end only",
        "not modelled: int64 overflow of clock + offset (undefined behaviour in C); inputs stay below 2^62",
        "uthash/utlist (DL_SORT) and nftw are not modelled: the model sorts the enumerated streams by strcmp of the relative path",
    ]
    chk.assumptions = ["relative paths of the streams are pairwise distinct (they are distinct directories)",
                       "|clock + offset| < 2^63 (no signed overflow in stream_evclock)",
                       "PRV thread-state records (type 4) are written in the order the events are processed; the e2e traces make every event change the thread state"]
    proved = chk.translate_and_prove(["cmp_player", "loader", "loader_step", "stepper", "tables", "pv", "emuloop", "traceload"])

    build = common.repo_build("hook")
    hdir = os.path.join(common.BUILD, "harness")
    hx = os.path.join(hdir, "heap_h-" + build.tree)
    if not os.path.exists(hx):
        for f in os.listdir(hdir) if os.path.isdir(hdir) else []:
            if f.startswith("heap_h-"):
                os.remove(os.path.join(hdir, f))
        common.cc_harness(hx, [os.path.join(common.VERIF, "harness", "heap_h.c")], build,
                          extra=[os.path.join(build.path, "src", "libcommon-static.a")])
    oracle = None
    try:
        oracle = common.build_oracle("merge", "Extract_merge", "merge_drv.ml", "merge_x")
    except Exception as e:
        chk.notes.append("oracle unavailable: %r" % (e,))
        if not getattr(chk, "proof_broken", None):
            chk.proof_broken = {"kind": "extraction", "error": repr(e)[:500]}

    rng = chk.rng
    corr_broken = []

    # ---------------------------------------------------------------- clkoff (a): the table model against the real functions, in process
    corr_clk = []
    hx2 = os.path.join(hdir, "clkoff_h-" + build.tree)
    if not os.path.exists(hx2):
        for f in os.listdir(hdir) if os.path.isdir(hdir) else []:
            if f.startswith("clkoff_h-"):
                os.remove(os.path.join(hdir, f))
        common.cc_harness(hx2, [os.path.join(common.VERIF, "harness", "clkoff_h.c")], build, extra=build.libs_emu + ["-lm"])
    oracle2 = None
    try:
        oracle2 = common.build_oracle("clkoff", "Extract_clkoff", "clkoff_drv.ml", "clkoff_x")
    except Exception as e:
        chk.notes.append("clkoff oracle unavailable: %r" % (e,))
        if not getattr(chk, "proof_broken", None):
            chk.proof_broken = {"kind": "extraction", "error": repr(e)[:500]}
    tcases = []          # (class, tc, table bytes, well-formed?, twin index or None)
    for j in range(chk.budget(2500, 30000)):
        r = rng.fork("tab%d" % j)
        tc = gen_table_case(r, j)
        lines0 = render_rows(r, tc["rows"], tc["style"])
        t0 = table_file(tc["header"], lines0)
        tcases.append(("well-formed", tc, t0, True, None))
        if len(lines0) > 1:                                       # the same lines in another order, the looms in another order
            tc2 = dict(tc)
            tc2["looms"] = r.shuffle(list(tc["looms"]))
            tcases.append(("well-formed:shuffled", tc2, table_file(tc["header"], [lines0[i] for i in tc["order"]]), True, len(tcases) - 1))
        for _ in range(2):
            tb, kind = mutate_table(r, tc)
            tcases.append(("unusual:" + kind, tc, tb, False, None))
    tl = [tline(tb, tc["looms"]) for (_, tc, tb, _, _) in tcases]
    timpl = pbatch(hx2, tl)
    tmodl = pbatch(oracle2, tl) if oracle2 else [None] * len(tl)
    ntv = 0
    for n, ((cls, tc, tb, wf, twin), ti, tm) in enumerate(zip(tcases, timpl, tmodl)):
        chk.case(("TAB", tl[n]))
        chk.count("table:" + cls)
        chk.count("table:impl=%s" % ("load-fail" if ti == "load-fail" else "apply-fail" if ti.endswith("apply-fail") else "ok" if " | offs=" in ti else "other"))
        if tm is not None and " | unspec" in tm:
            chk.count("table:model-unspecified-number")
        why = None
        if wf:
            why = table_spec(tc, tb, ti)
            if why is None and twin is not None and " | offs=" in ti and " | offs=" in timpl[twin]:
                a = dict(zip(tcases[twin][1]["looms"], timpl[twin].split(" | offs=", 1)[1].split(",")))
                b = dict(zip(tc["looms"], ti.split(" | offs=", 1)[1].split(",")))
                if a != b:
                    why = "the offsets of the looms depend on the order of the table lines / of the looms: %r vs %r" % (sorted(a.items())[:6], sorted(b.items())[:6])
            if why is None and twin is not None and (" | offs=" in ti) != (" | offs=" in timpl[twin]):
                why = "acceptance of the table depends on the order of its lines / of the looms"
        if why is not None and ntv < 4:
            ntv += 1
            chk.violation("clkoff:" + hashlib.md5(tl[n].encode()).hexdigest()[:12],
                          "clock-offset table applied wrongly (real clkoff_load + parse_clkoff_entry in process): %s" % why,
                          {"clock_offsets_txt": tb.decode("latin1"), "looms": tc["looms"], "impl": ti[:1500], "model": (tm or "")[:1500],
                           "how": "echo 'T <table hex> <loom hex,...>' | build/harness/clkoff_h-*"})
        if tm is not None:
            d = norm_impl_vs_model(ti, tm)
            if d is not None:
                corr_clk.append((cls, tb[:300], tc["looms"][:8], d))
        if wf and tm is not None and " | unspec" in tm:
            corr_clk.append(("generator left the modelled numeric domain", tb[:300], tm[:200]))
    k = len(tcases) // 2
    chk.sample({"op": "clock-offset table", "class": tcases[k][0], "clock_offsets_txt": tcases[k][2].decode("latin1")[:400], "looms": tcases[k][1]["looms"][:6],
                "impl": timpl[k][:300], "model": (tmodl[k] or "")[:300]})
    chk.coverage["tables_validated_against_impl"] = len(tcases)

    # ---------------------------------------------------------------- traceload (a): the GENERATED trace_load (extracted) against the real one, in process
    # BEGIN traceload.  Real side: harness/tracewalk_h.c = the real trace.c (trace_load, cb_nftw, is_stream, load_stream,
    # cmp_streams), real nftw/opendir/path.c on a tree made here; only stream_load is a stub.  Model side: the extracted
    # Gen/TraceLoad_gen.v over Emu/TraceLoadPre.v (oracle/tracewalk_drv.ml), the walk being the entries of the tree in a
    # SHUFFLED order (C03_trace_load_walk_order_independent_from_source: the order of the walk does not matter).
    corr_tw = []
    hx3 = os.path.join(hdir, "tracewalk_h-" + build.tree)
    if not os.path.exists(hx3):
        for f in os.listdir(hdir) if os.path.isdir(hdir) else []:
            if f.startswith("tracewalk_h-"):
                os.remove(os.path.join(hdir, f))
        common.cc_harness(hx3, [os.path.join(common.VERIF, "harness", "tracewalk_h.c")], build, extra=build.libs_emu + ["-lm"])
    oracle3 = None
    try:
        oracle3 = common.build_oracle("tracewalk", "Extract_tracewalk", "tracewalk_drv.ml", "tracewalk_x")
    except Exception as e:
        chk.notes.append("tracewalk oracle unavailable: %r" % (e,))
        if not getattr(chk, "proof_broken", None):
            chk.proof_broken = {"kind": "extraction", "error": repr(e)[:500]}
    twroot = os.path.join(common.BUILD, "tracewalk-%d" % os.getpid())
    shutil.rmtree(twroot, ignore_errors=True)
    twl_impl, twl_model, twinfo = [], [], []
    names = [b"a", b"b", b"A", b"a0", b"a-", b"~", b"\xc3\xa9", b"stream.json", b"stream.jsonx", b"xstream.json", b"stream.obs", b"loom.h.1", b"proc.7", b"thread.7", b"ab"]
    for j in range(chk.budget(150, 1500)):
        r = rng.fork("tw%d" % j)
        root = os.path.join(twroot, "t%d" % j).encode()
        os.makedirs(root)
        entries = [(root, "D")]
        dirs = [root]
        for _ in range(r.range(0, 9)):
            par = r.choice(dirs)
            nm = r.choice(names)
            pth = os.path.join(par, nm)
            if os.path.lexists(pth):
                continue
            if r.chance(1, 2) and pth.count(b"/") < root.count(b"/") + 5:
                os.mkdir(pth)
                dirs.append(pth)
                entries.append((pth, "D"))
            else:
                open(pth, "wb").close()
                entries.append((pth, "F"))
        for dd in dirs:                                           # most directories are streams
            pth = os.path.join(dd, b"stream.json")
            if r.chance(2, 3) and not os.path.lexists(pth):
                open(pth, "wb").close()
                entries.append((pth, "F"))
        given = root + r.choice([b"", b"", b"/", b"//"])
        missing = r.chance(1, 25)
        if missing:
            given = root + b"-missing"
        expect = sorted(os.path.dirname(p)[len(root):].lstrip(b"/") for p, t in entries if t == "F" and os.path.basename(p) == b"stream.json")
        twinfo.append((given, entries, None if missing else expect))
        twl_impl.append("W " + given.hex())
        walk = r.shuffle(list(entries))
        twl_model.append("W %s %s%s" % (given.hex(), ";".join("%s:%s" % (p.hex(), t) for p, t in walk) or "-", " X" if missing else ""))
    twi = pbatch(hx3, twl_impl)
    twm = pbatch(oracle3, twl_model) if oracle3 else [None] * len(twl_impl)
    shutil.rmtree(twroot, ignore_errors=True)
    ntw = 0
    for (given, entries, expect), ti, tm in zip(twinfo, twi, twm):
        chk.case(("TW", given.hex(), tuple(sorted(p.hex() + t for p, t in entries))))
        chk.count("tracewalk:impl=%s" % (ti.split(" ")[0],))
        want = "fail" if expect is None else "ok n=%d %s" % (len(expect), ",".join(e.hex() or "." for e in expect) or "-")
        if ti != want and ntw < 4:                                # the spec, said independently: the stream directories, sorted by relative path as bytes
            ntw += 1
            chk.violation("tracewalk:" + hashlib.md5(repr(sorted(entries)).encode()).hexdigest()[:12],
                          "trace_load: the streams of the loaded trace are not the directories holding a regular file stream.json, sorted by relative path",
                          {"given": given.decode("latin1"), "entries": [(p.decode("latin1"), t) for p, t in entries][:40], "impl": ti[:800], "expected": want[:800],
                           "how": "make the tree; echo 'W <dir hex>' | build/harness/tracewalk_h-*"})
        if tm is not None and tm != ti:
            corr_tw.append((given.decode("latin1"), [(p.decode("latin1"), t) for p, t in entries][:20], ti[:300], tm[:300]))
    chk.coverage["trace_trees_validated_against_impl"] = len(twinfo)
    if corr_tw:
        chk.coverage["tracewalk_disagreements"] = [repr(x)[:600] for x in corr_tw[:10]]
        if ntw == 0:
            chk.violation("broken-correspondence:tracewalk",
                          "trace_load: generated code over TraceLoadPre.v and implementation disagree on %d trees, none of which violates the property's spec" % len(corr_tw),
                          {"correspondence": "Gen/TraceLoad_gen.v + Emu/TraceLoadPre.v vs trace.c / nftw / path.c (harness/tracewalk_h.c)",
                           "disagreements": [repr(x)[:1500] for x in corr_tw[:20]]}, found_input=False)
    # END traceload

    # ---------------------------------------------------------------- (a) heap
    scripts = []
    for nk, L in chk.budget([(4, 6), (3, 7)], [(4, 8), (3, 9), (5, 7)]):
        n0 = len(scripts)
        scripts.extend(heap_scripts_exhaustive(nk, L))
        chk.count("heap:exhaustive keys=%d len=%d" % (nk, L), len(scripts) - n0)
    n0 = len(scripts)
    scripts.extend(heap_scripts_random(rng, chk.budget(300, 3000), chk.budget(300, 1000)))
    chk.count("heap:random-long", len(scripts) - n0)
    for f in sorted(glob.glob(os.path.join(common.VERIF, "corpus", "C03", "heap-*.json"))):
        scripts.insert(0, [tuple(op) for op in json.load(open(f))["ops"]])
        chk.count("heap:corpus")
    lines = [heap_script(ops) for ops in scripts]
    impl = pbatch(hx, lines)
    modl = pbatch(oracle, lines) if oracle else [None] * len(lines)
    nh_viol = 0
    for ops, ln, i, m in zip(scripts, lines, impl, modl):
        chk.case(("H", ln))
        why = heap_spec(ops, i)
        if why is not None and nh_viol < 5:
            nh_viol += 1
            chk.violation("heap:" + hashlib.md5(ln.encode()).hexdigest()[:12],
                          "heap.h violates the heap contract: %s" % why,
                          {"script": ln, "impl": i, "model": m, "how": "echo '<script>' | build/harness/heap_h-*"})
        if m is not None and i != m:
            corr_broken.append(("H", ln[:200], i[:200], m[:200]))
        if m is not None and any(it.endswith("/0") for it in m.split(" ")):
            corr_broken.append(("H-model-invariant", ln[:200], m[:200]))
    chk.sample({"op": "heap script", "script": lines[len(lines) // 2][:120], "impl": impl[len(lines) // 2][:200],
                "model": (modl[len(lines) // 2] or "")[:200]})
    # heap_get walk of the model = array position (path lemma, executed)
    if oracle:
        g = common.batch(oracle, ["G %d" % n for n in range(1, 4097)])
        for n, a in zip(range(1, 4097), g):
            if a.split(" ")[0] != str(n):
                corr_broken.append(("G", n, a))

    # ---------------------------------------------------------------- (b) end to end
    cases = []
    for f in sorted(glob.glob(os.path.join(common.VERIF, "corpus", "C03", "case-*.json"))):
        c = json.load(open(f))
        c["k"] = len(cases)
        cases.append(prepare(c))
        chk.count("e2e:corpus")
    for kind, n in (("emu", chk.budget(500, 9000)), ("dump", chk.budget(300, 5000))):
        for j in range(n):
            c = gen_case(rng.fork("%s%d" % (kind, j)), len(cases), kind)
            cases.append(prepare(c))
    wd = trace.workdir()
    wd2 = second_workdir() or trace.workdir()
    chk.coverage["second_enumeration_dir"] = os.path.dirname(wd2)
    try:
        results = trace.pmap(lambda c: run_case(build, wd, wd2, c), cases)
    finally:
        shutil.rmtree(wd, ignore_errors=True)
        shutil.rmtree(wd2, ignore_errors=True)
    # ---- clkoff (b): the per-stream offsets of the model come from the table model applied to the bytes on disk;
    #      the deciders read the table with table_lookup (independent), not from the generator's bookkeeping
    ol = [tline(None if c["table"] is None else c["table"].encode("latin1"), [s["loom"] for s in c["streams"]]) for c in cases]
    oans = pbatch(oracle2, ol) if oracle2 else [None] * len(ol)
    for c, oa in zip(cases, oans):
        c["model_table"] = oa
        c["model_offs"] = None
        if oa is not None and " | offs=" in oa:
            t = oa.split(" | offs=", 1)[1]
            c["model_offs"] = [int(x) for x in t.split(",")] if t else []
        lk = table_lookup(None if c["table"] is None else c["table"].encode("latin1"))
        if lk is None or (c["offsets"] or {}) != lk:
            corr_clk.append(("e2e generator: table bytes do not say what the generator meant", c.get("table"), c["offsets"]))
        else:
            c["offsets"] = lk if c["table"] is not None else None
        lh = set(hostname(s["loom"]) for s in c["streams"])
        c["table_refused"] = any(h not in lh for h in (lk or {}))
        if oa is not None and c["model_offs"] is None and not c["table_refused"]:
            corr_clk.append(("e2e: the table model does not give offsets for a well-formed table", c.get("table"), oa[:300]))
        if oa is not None and c["model_offs"] is not None and c["table_refused"]:
            corr_clk.append(("e2e: the table model accepts an entry without loom", c.get("table"), oa[:300]))
    mlines = []
    for c in cases:
        mlines.append(model_line(c, "D"))
        if c["kind"] == "emu":
            mlines.append(model_line(c, "E"))
    mans = pbatch(oracle, mlines) if oracle else [None] * len(mlines)
    mi = 0
    nviol = 0
    dump_finding_reported = False
    for c, r in zip(cases, results):
        md = mans[mi]
        mi += 1
        me = None
        if c["kind"] == "emu":
            me = mans[mi]
            mi += 1
        chk.case(("E2E", case_key(c)))
        nst = len(c["streams"])
        nev = sum(len(s["clocks"]) for s in c["streams"])
        allcl = [x + ((c["offsets"] or {}).get(hostname(s["loom"]), 0)) for s in c["streams"] for x in s["clocks"]]
        ties = len(allcl) - len(set(allcl))
        chk.count("e2e:%s:%s" % (c["kind"], c["expect"]))
        chk.count("e2e:streams=%s" % ("1" if nst == 1 else "2-4" if nst <= 4 else "5-12"))
        chk.count("e2e:events=%s" % ("0" if nev == 0 else "1-20" if nev <= 20 else "21-100" if nev <= 100 else ">100"))
        chk.count("e2e:cross-ties=%s" % ("0" if ties == 0 else "1-10" if ties <= 10 else ">10"))
        chk.count("e2e:offset-table=%s" % ("none" if c["offsets"] is None else "all-zero" if not any(c["offsets"].values()) else "nonzero"))
        if any(not s["clocks"] for s in c["streams"]):
            chk.count("e2e:has-empty-stream")
        pub = case_public(c)

        # ---- ovnidump
        d = r["dump"]
        dseq = index_dump_seq(c, d["seq"])
        s_ok, _, _ = side_conditions(c, corrected=False)
        s_ok_corr, _, _ = side_conditions(c, corrected=True)
        if d["rc"] != 0 or d["bad"]:
            if nviol < 6:
                nviol += 1
                chk.violation("dump-fails:" + case_key(c), "ovnidump fails (rc=%s) on a loadable trace" % d["rc"],
                              {"case": pub, "stderr": d["err"], "bad_line": d["bad"]})
        elif s_ok:
            why = merge_spec(c, dseq, with_offsets=False)
            if why is not None:
                if nviol < 6:
                    nviol += 1
                    chk.violation("dump-order:" + case_key(c), "ovnidump: %s" % why,
                                  {"case": pub, "impl_order": d["seq"][:200], "model": md})
            elif s_ok_corr and c["offsets"] is not None:
                why2 = merge_spec(c, dseq, with_offsets=True)
                if why2 is not None:
                    chk.count("e2e:dump-not-in-corrected-order")
                    if not dump_finding_reported:
                        dump_finding_reported = True
                        chk.violation(KEY_DUMP_OFFSETS,
                                      "ovnidump never loads clock-offsets.txt (no system_init): with a non-trivial offset table its "
                                      "sequence is ordered by the raw stream clock, not by corrected time: %s" % why2,
                                      {"case": pub, "impl_order": [(a, b) for (a, b, _, _) in d["seq"][:200]],
                                       "theorem": "C03_dump_corrected_order_refuted",
                                       "how": "write the streams with lib/vf/trace.py plus clock-offsets.txt, run ovnidump <dir>"})
        if md is not None and d["rc"] == 0:
            v, mseq = parse_model(md)
            if v != "ok" or [(a, b) for (a, b, _, _, _) in mseq] != [(a, b) for (a, b, _, _) in d["seq"]] \
                    or [(a, p) for (a, _, p, _, _) in mseq] != dseq:
                corr_broken.append(("D", case_key(c), pub, d["seq"][:60], md[:600]))

        # ---- independence from the enumeration order: same streams, other file system / creation order
        r2 = r.get("second")
        if r2 is not None:
            diff = None
            if r2["dump"]["seq"] != d["seq"] or r2["dump"]["rc"] != d["rc"]:
                diff = "ovnidump output differs"
            elif c["kind"] == "emu" and (r2["emu"]["verdict"], r2["emu"]["prv"]) != (r["emu"]["verdict"], r["emu"]["prv"]):
                diff = "ovniemu verdict / thread.prv state records differ"
            chk.count("e2e:second-enumeration=%s" % ("same" if diff is None else "DIFFERENT"))
            if diff is not None and nviol < 6:
                nviol += 1
                first = next((n for n, (a, b) in enumerate(zip(d["seq"], r2["dump"]["seq"])) if a != b), None)
                chk.violation("enum-order:" + case_key(c),
                              "the result depends on the enumeration order of the stream directories: %s (first difference at line %s)" % (diff, first),
                              {"case": pub, "creation_order_1": c["order"], "creation_order_2": list(reversed(c["order"])),
                               "dir_1": "ext4 scratch", "dir_2": chk.coverage["second_enumeration_dir"],
                               "ovnidump_1": [(a, b) for (a, b, _, _) in d["seq"][:80]],
                               "ovnidump_2": [(a, b) for (a, b, _, _) in r2["dump"]["seq"][:80]]})

        # ---- ovniemu
        if c["kind"] == "emu":
            e = r["emu"]
            so, nn, gt = side_conditions(c, corrected=True)
            chk.count("e2e:emu-verdict=%s" % e["verdict"])
            if c.get("table_refused"):                            # clkoff: an entry without loom - the model refuses, so must ovniemu
                chk.count("e2e:table-entry-without-loom")
                if not (e["verdict"] == "err-other" and "cannot find loom with hostname" in e["err"]):
                    corr_clk.append(("e2e: entry without loom not refused by ovniemu", case_key(c), pub, e["verdict"], e["err"][-300:]))
                me = None
            elif so and nn and gt:
                # the property's hypotheses hold: the replay must complete and satisfy the spec
                why = None
                if e["verdict"] != "ok" or e["nproc"] != nev:
                    why = "ovniemu rejects/aborts a trace of sorted streams (%s, processed %s of %d events)" % (e["verdict"], e["nproc"], nev)
                else:
                    # PRV state records -> (relpath, index) by counting per stream
                    by_tid = {s["tid"]: relpath(s) for s in c["streams"]}
                    cnt = {}
                    seq = []
                    for (tid, t) in e["prv"]:
                        rp = by_tid.get(tid, "?")
                        seq.append((rp, cnt.get(rp, 0)))
                        cnt[rp] = cnt.get(rp, 0) + 1
                    why = merge_spec(c, seq, with_offsets=True, times=[t for (_, t) in e["prv"]])
                if why is not None and nviol < 6:
                    nviol += 1
                    chk.violation("emu-replay:" + case_key(c), "ovniemu: %s" % why,
                                  {"case": pub, "prv_state_records": e["prv"][:200], "stderr": e["err"][-800:], "model": me})
            if me is not None:
                v, mseq = parse_model(me)
                if v != e["verdict"]:
                    corr_broken.append(("E-verdict", case_key(c), pub, e["verdict"], v, e["err"][-300:]))
                elif v == "ok":
                    by_tid = {s["tid"]: relpath(s) for s in c["streams"]}
                    got = [(by_tid.get(tid, "?"), t) for (tid, t) in e["prv"]]
                    if got != [(a, dc) for (a, _, _, _, dc) in mseq]:
                        corr_broken.append(("E-seq", case_key(c), pub, got[:60], me[:600]))
        if c["k"] in (0, len(cases) // 3, len(cases) - 1):
            chk.sample({"op": "e2e " + c["kind"], "case": pub,
                        "ovnidump_order": [(a, b) for (a, b, _, _) in r["dump"]["seq"][:12]],
                        "ovniemu": (r.get("emu") or {}).get("verdict"), "model_dump": (md or "")[:200]})

    if corr_broken:
        chk.coverage["correspondence_disagreements"] = [repr(x)[:600] for x in corr_broken[:10]]
        # the ovnidump/offsets finding concerns inputs on which model and tool agree: it must not hide a broken tie
        if not [v for v in chk.violations if v[0] != KEY_DUMP_OFFSETS]:
            chk.violation("broken-correspondence",
                          "model and implementation disagree on %d inputs, none of which violates the property's spec" % len(corr_broken),
                          {"correspondence": "heap/player model vs heap.h / ovnidump / ovniemu",
                           "disagreements": [repr(x)[:1500] for x in corr_broken[:20]]}, found_input=False)
    if corr_clk:
        chk.coverage["clkoff_disagreements"] = [repr(x)[:600] for x in corr_clk[:10]]
        if not [v for v in chk.violations if v[0] != KEY_DUMP_OFFSETS]:
            chk.violation("broken-correspondence:clkoff",
                          "clock-offset table: model and implementation disagree on %d inputs, none of which violates the property's spec" % len(corr_clk),
                          {"correspondence": "Emu/ClkoffDefs.v vs clkoff.c / loom.c / system.c (harness/clkoff_h.c, ovniemu)",
                           "disagreements": [repr(x)[:1500] for x in corr_clk[:20]]}, found_input=False)
    chk.coverage["traces_validated_against_impl"] = len(cases)
    chk.coverage["heap_scripts"] = len(lines)
    chk.coverage["exhaustive"] = False
    chk.coverage["rule"] = (
        "heap: ALL op sequences (insert of one of k keys | pop) of the listed lengths, state compared after every op, plus random long "
        "scripts with 1..1000 distinct keys; e2e: 1-12 streams of 0-40 events, corrected clocks drawn from a small span (many cross-stream "
        "ties), offsets per hostname through clock-offsets.txt, directories created in shuffled order, flavours valid/backwards/negative/"
        "gate/no-table; a case is distinct by its script text resp. the hash of its streams+offsets+creation order")
