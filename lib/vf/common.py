"""Shared machinery of the ovni verification checks.

Every check is `./check <Cnn> quick|thorough`; it goes through the same
pipeline (DESIGN.md section 1):

  forbidden-construct grep -> translate /repo -> make the property's Coq file
  -> capture Print Assumptions -> extract/build the oracle -> build /repo from
  its working tree -> correspondence -> (search) -> evidence + verdict.
"""
import fcntl
import hashlib as hashlib
import hashlib
import json
import os
import re
import shutil
import subprocess
import sys
import time

VERIF = os.path.dirname(os.path.dirname(os.path.dirname(os.path.abspath(__file__))))
REPO = os.environ.get("VERIF_REPO", "/repo")
COQ = os.path.join(VERIF, "coq")
BUILD = os.path.join(VERIF, "build")
# a run against another tree (VERIF_REPO: a scratch worktree with a seeded change) must not overwrite the evidence
# of /repo itself: its evidence and replays go under build/other-tree/
if os.environ.get("VERIF_REPO") and os.path.realpath(os.environ["VERIF_REPO"]) != "/repo":
    EVID = os.path.join(BUILD, "other-tree", "evidence")
    REPLAYS = os.path.join(BUILD, "other-tree", "replays")
else:
    EVID = os.path.join(VERIF, "evidence")
    REPLAYS = os.path.join(VERIF, "replays")
NCPU = os.cpu_count() or 4

GUARD = "OVNI_VERIF"


def log(*a):
    print(*a, file=sys.stderr, flush=True)


def run(cmd, timeout=600, cwd=None, env=None, input=None, check=False):
    """Run a command, capture stdout+stderr as text. Returns (rc, out, err)."""
    e = dict(os.environ)
    if env:
        e.update(env)
    try:
        p = subprocess.run(cmd, cwd=cwd, env=e, input=input, timeout=timeout,
                           stdout=subprocess.PIPE, stderr=subprocess.PIPE,
                           text=True, errors="replace")
        rc, out, err = p.returncode, p.stdout, p.stderr
    except subprocess.TimeoutExpired as t:
        rc = 124
        out = (t.stdout or b"").decode(errors="replace") if isinstance(t.stdout, bytes) else (t.stdout or "")
        err = "TIMEOUT after %ss" % timeout
    if check and rc != 0:
        raise RuntimeError("command failed (%d): %s\n%s\n%s" % (rc, cmd, out[-2000:], err[-2000:]))
    return rc, out, err


# ---------------------------------------------------------------- PRNG

MASK64 = (1 << 64) - 1


class Prng:
    """splitmix64; every random choice of a check derives from one state."""

    def __init__(self, seed):
        self.s = seed & MASK64

    def next(self):
        self.s = (self.s + 0x9E3779B97F4A7C15) & MASK64
        z = self.s
        z = ((z ^ (z >> 30)) * 0xBF58476D1CE4E5B9) & MASK64
        z = ((z ^ (z >> 27)) * 0x94D049BB133111EB) & MASK64
        return z ^ (z >> 31)

    def below(self, n):
        return self.next() % n if n > 0 else 0

    def range(self, lo, hi):
        """inclusive"""
        return lo + self.below(hi - lo + 1)

    def choice(self, xs):
        return xs[self.below(len(xs))]

    def chance(self, num, den):
        return self.below(den) < num

    def shuffle(self, xs):
        xs = list(xs)
        for i in range(len(xs) - 1, 0, -1):
            j = self.below(i + 1)
            xs[i], xs[j] = xs[j], xs[i]
        return xs

    def fork(self, tag):
        h = hashlib.sha256(("%d/%s" % (self.s, tag)).encode()).digest()
        return Prng(int.from_bytes(h[:8], "little"))


def seed_from_env():
    try:
        return int(os.environ.get("VERIF_SEED", "1"))
    except ValueError:
        return 1


# ---------------------------------------------------------------- repo build

def _tree_hash():
    """Hash of everything the build reads in /repo's working tree."""
    h = hashlib.sha256()
    roots = ["CMakeLists.txt", "cmake", "include", "src"]
    for r in roots:
        p = os.path.join(REPO, r)
        if os.path.isfile(p):
            files = [p]
        else:
            files = []
            for d, dn, fn in os.walk(p):
                dn.sort()
                for f in sorted(fn):
                    files.append(os.path.join(d, f))
        for f in files:
            h.update(os.path.relpath(f, REPO).encode())
            try:
                with open(f, "rb") as fh:
                    h.update(fh.read())
            except OSError:
                h.update(b"?")
    return h.hexdigest()[:16]


VARIANTS = {
    # name: (CMAKE_BUILD_TYPE, extra C flags, compiler)
    "hook": ("RelWithDebInfo", "-Wno-error -D%s" % GUARD, "cc"),
    "plain": ("RelWithDebInfo", "-Wno-error", "cc"),
    "asan": ("Debug", "-Wno-error -D%s -O1 -g -fsanitize=address,undefined -fno-sanitize-recover=undefined -fno-omit-frame-pointer" % GUARD, "cc"),
    "tsan": ("Debug", "-Wno-error -D%s -O1 -g -fsanitize=thread" % GUARD, "clang"),
}


class RepoBuild:
    def __init__(self, path, variant, tree):
        self.path = path
        self.variant = variant
        self.tree = tree
        self.bin = os.path.join(path, "src", "emu")
        self.libdir = os.path.join(path, "src", "rt")
        self.incdir = os.path.join(path, "include")

    def tool(self, name):
        return os.path.join(self.bin, name)

    @property
    def cflags_emu(self):
        """-I flags to compile a harness against emulator sources"""
        return ["-I" + os.path.join(REPO, "src", "include"), "-I" + os.path.join(REPO, "src", "emu"),
                "-I" + os.path.join(REPO, "src"), "-I" + os.path.join(REPO, "include"),
                "-I" + self.incdir, "-I" + os.path.join(self.path, "src"),
                "-D_POSIX_C_SOURCE=200809L", "-D_GNU_SOURCE", "-D" + GUARD]

    @property
    def libs_emu(self):
        return [os.path.join(self.bin, "libemu.a"),
                os.path.join(self.libdir, "libovni-static.a"),
                os.path.join(self.path, "src", "libparson-static.a"),
                os.path.join(self.path, "src", "libcommon-static.a")]


def repo_build(variant="hook"):
    """Configure+build /repo's *working tree* (cached by content hash)."""
    os.makedirs(BUILD, exist_ok=True)
    tree = _tree_hash()
    name = "repo-%s-%s" % (variant, tree)
    path = os.path.join(BUILD, name)
    lock = open(os.path.join(BUILD, ".repo-%s.lock" % variant), "w")
    fcntl.flock(lock, fcntl.LOCK_EX)
    try:
        stamp = os.path.join(path, ".verif-ok")
        if not os.path.exists(stamp):
            # prune: keep the 8 most recently used builds of this variant (disk is limited), and never one that
            # was used in the last three hours (another check may be running against it)
            olds = [os.path.join(BUILD, d) for d in os.listdir(BUILD) if d.startswith("repo-%s-" % variant)]
            olds.sort(key=lambda x: os.path.getmtime(x), reverse=True)
            for d in olds[8:]:
                if time.time() - os.path.getmtime(d) > 3 * 3600:
                    shutil.rmtree(d, ignore_errors=True)
            btype, cflags, cc = VARIANTS[variant]
            t0 = time.time()
            run(["cmake", "-G", "Ninja", "-S", REPO, "-B", path,
                 "-DCMAKE_BUILD_TYPE=" + btype, "-DCMAKE_C_COMPILER=" + cc,
                 "-DCMAKE_C_FLAGS=" + cflags, "-DUSE_MPI=OFF", "-DBUILD_TESTING=OFF",
                 "-DCMAKE_INTERPROCEDURAL_OPTIMIZATION=OFF", "-DOVNI_GIT_COMMIT=verif"],
                timeout=300, check=True)
            rc, out, err = run(["ninja", "-C", path], timeout=600)
            if rc != 0:
                raise RuntimeError("build of /repo working tree failed (variant %s):\n%s\n%s" % (variant, out[-3000:], err[-3000:]))
            open(stamp, "w").write("ok\n")
            log("[build] %s built in %.1fs" % (name, time.time() - t0))
        else:
            os.utime(path, None)
    finally:
        fcntl.flock(lock, fcntl.LOCK_UN)
        lock.close()
    return RepoBuild(path, variant, tree)


def cc_harness(out, sources, build, extra=None, cc="cc", timeout=300):
    """Compile a C harness (sources may #include repo .c files)."""
    os.makedirs(os.path.dirname(out), exist_ok=True)
    cmd = [cc, "-std=gnu11", "-O1", "-g", "-w", "-o", out] + list(sources) + build.cflags_emu + (extra or [])
    rc, o, e = run(cmd, timeout=timeout)
    if rc != 0:
        raise RuntimeError("harness compile failed: %s\n%s" % (" ".join(cmd), e[-4000:]))
    return out


# ---------------------------------------------------------------- Coq

FORBIDDEN = re.compile(
    r"\b(Admitted|admit|Axiom|Axioms|Parameter|Parameters|Conjecture|Conjectures|"
    r"Admit\s+Obligations|bypass_check|Unset\s+Guard\s+Checking|Unset\s+Positivity\s+Checking|"
    r"Unset\s+Universe\s+Checking|type-in-type|impredicative-set|native_compute)\b")


def strip_coq_comments(s):
    out = []
    depth = 0
    i = 0
    n = len(s)
    instr = False
    while i < n:
        c = s[i]
        if depth == 0 and c == '"':
            instr = not instr
            out.append(c)
            i += 1
            continue
        if not instr and s.startswith("(*", i):
            depth += 1
            i += 2
            continue
        if not instr and depth > 0 and s.startswith("*)", i):
            depth -= 1
            i += 2
            continue
        if depth == 0:
            out.append(c)
        elif c == "\n":
            out.append(c)
        i += 1
    return "".join(out)


def forbidden_scan():
    """Return list of (file, line, token) for forbidden constructs in the development."""
    bad = []
    for d, dn, fn in os.walk(COQ):
        for f in fn:
            if not f.endswith(".v"):
                continue
            p = os.path.join(d, f)
            txt = strip_coq_comments(open(p, encoding="utf-8", errors="replace").read())
            # Variable/Hypothesis outside a section
            depth = 0
            for ln, line in enumerate(txt.split("\n"), 1):
                m = FORBIDDEN.search(line)
                if m:
                    bad.append((os.path.relpath(p, VERIF), ln, m.group(0)))
                if re.match(r"\s*Section\b", line):
                    depth += 1
                elif re.match(r"\s*End\b", line) and depth > 0:
                    depth -= 1
                elif depth == 0 and re.match(r"\s*(Variable|Variables|Hypothesis|Hypotheses|Context)\b", line):
                    bad.append((os.path.relpath(p, VERIF), ln, "Variable-outside-section"))
    flags = open(os.path.join(COQ, "_CoqProject.in")).read()
    for tok in ("-type-in-type", "-impredicative-set", "-vos", "-vok"):
        if tok in flags:
            bad.append(("coq/_CoqProject", 0, tok))
    return bad


def coq_lock():
    os.makedirs(BUILD, exist_ok=True)
    f = open(os.path.join(BUILD, ".coq.lock"), "w")
    fcntl.flock(f, fcntl.LOCK_EX)
    return f


def coq_makefile():
    mk = os.path.join(COQ, "Makefile")
    cp = os.path.join(COQ, "_CoqProject")
    # Regenerate when the set of .v files or _CoqProject changed
    files = []
    for d, dn, fn in os.walk(COQ):
        dn.sort()
        for f in sorted(fn):
            if f.endswith(".v"):
                files.append(os.path.relpath(os.path.join(d, f), COQ))
    base = [l for l in open(cp + ".in").read().split("\n") if l.startswith("-")]
    want = "\n".join(base + sorted(files)) + "\n"
    cur = open(cp).read() if os.path.exists(cp) else ""
    if cur != want:
        open(cp, "w").write(want)
    if (not os.path.exists(mk)) or os.path.getmtime(mk) < os.path.getmtime(cp):
        run(["coq_makefile", "-f", "_CoqProject", "-o", "Makefile"], cwd=COQ, check=True)


def coq_make(targets, timeout=1500):
    """make the given .vo targets. Returns (ok, log_text, failure) where failure
    describes the first failing file/line, or None."""
    lk = coq_lock()
    try:
        coq_makefile()
        rc, out, err = run(["timeout", str(timeout), "make", "-k", "-j%d" % NCPU] + list(targets), cwd=COQ, timeout=timeout + 30)
    finally:
        lk.close()
    text = out + "\n" + err
    failure = None
    if rc != 0:
        m = re.search(r'File "([^"]+)", line (\d+), characters [^\n]*\n(Error:?[^\n]*(?:\n[^\n]+){0,6})', text)
        if m:
            failure = {"file": m.group(1), "line": int(m.group(2)), "error": m.group(3)[:600]}
            failure["lemma"] = _enclosing_lemma(os.path.join(COQ, m.group(1)), int(m.group(2)))
        else:
            failure = {"file": "?", "line": 0, "error": text[-800:]}
    return rc == 0, text, failure


def _enclosing_lemma(path, line):
    try:
        lines = open(path, encoding="utf-8", errors="replace").read().split("\n")
    except OSError:
        return None
    for i in range(min(line, len(lines)) - 1, -1, -1):
        m = re.match(r"\s*(?:Local\s+|Global\s+|#\[[^\]]*\]\s*)*(Lemma|Theorem|Corollary|Fact|Remark|Proposition|Example|Definition|Fixpoint|Instance)\s+([A-Za-z0-9_']+)", lines[i])
        if m:
            return m.group(2)
    return None


def property_theorems(prop):
    """Names of the theorems stated in Props/Properties_<prop>.v."""
    p = os.path.join(COQ, "Props", "Properties_%s.v" % prop)
    txt = strip_coq_comments(open(p).read())
    return re.findall(r"^\s*Theorem\s+([A-Za-z0-9_']+)", txt, re.M)


def check_property_file(prop, timeout=1500):
    """Build the property file (and all it depends on) and return a dict:
       ok, theorems[], assumptions{thm: [axioms]}, failure, log."""
    target = "Props/Properties_%s.vo" % prop
    # Always recompile the property file itself so Print Assumptions output is captured.
    for ext in (".vo", ".glob", ".vok", ".vos"):
        try:
            os.remove(os.path.join(COQ, "Props", "Properties_%s%s" % (prop, ext)))
        except OSError:
            pass
    t0 = time.time()
    ok, text, failure = coq_make([target], timeout=timeout)
    thms = property_theorems(prop)
    assumptions = {}
    if ok:
        # Output of `Print Assumptions thm.` appears in order.
        blocks = re.findall(r"(Closed under the global context|Axioms:\n(?:.+\n?)+?)(?=\n\S|\nClosed|\Z)", text)
        # simpler, robust parse: split on the two possible headers
        parts = re.split(r"(Closed under the global context|Axioms:)", text)
        seq = []
        i = 1
        while i < len(parts):
            hdr = parts[i]
            body = parts[i + 1] if i + 1 < len(parts) else ""
            if hdr.startswith("Closed"):
                seq.append([])
            else:
                axs = []
                for line in body.split("\n")[1:]:
                    m = re.match(r"^([A-Za-z_][A-Za-z0-9_.']*)\s*(:|$)", line)
                    if m:
                        axs.append(m.group(1))
                    elif line.strip() == "" and axs:
                        break
                    elif re.match(r"^\S", line) and not m:
                        break
                seq.append(axs)
            i += 2
        for k, t in enumerate(thms):
            assumptions[t] = seq[k] if k < len(seq) else None
    return {"ok": ok, "theorems": thms, "assumptions": assumptions, "failure": failure,
            "log": text[-6000:], "wall_s": round(time.time() - t0, 2), "target": target}


# ---------------------------------------------------------------- oracle (extracted OCaml)

def build_oracle(name, extract_v, driver_ml, extracted_base):
    """Compile Extract/<extract_v>.vo (which writes <extracted_base>.ml[i] in coq/),
    then link it with oracle/<driver_ml>. Returns path of the executable."""
    outdir = os.path.join(BUILD, "oracle", name)
    os.makedirs(outdir, exist_ok=True)
    exe = os.path.join(outdir, name)
    ok, text, failure = coq_make(["Extract/%s.vo" % extract_v])
    if not ok:
        raise RuntimeError("extraction of %s failed: %s" % (extract_v, failure))
    ml = os.path.join(COQ, extracted_base + ".ml")
    mli = os.path.join(COQ, extracted_base + ".mli")
    drv = os.path.join(VERIF, "oracle", driver_ml)
    srcs = [mli, ml, drv]
    stamp = os.path.join(outdir, ".stamp")
    sig = hashlib.sha256(b"".join(open(s, "rb").read() for s in srcs)).hexdigest()
    if os.path.exists(exe) and os.path.exists(stamp) and open(stamp).read() == sig:
        return exe
    lk = open(os.path.join(outdir, ".lock"), "w")
    fcntl.flock(lk, fcntl.LOCK_EX)
    try:
        for s in srcs:
            shutil.copy(s, outdir)
        rc, o, e = run(["ocamlfind", "ocamlopt", "-O2" if False else "-w", "-a", "-package", "str", "-linkpkg",
                        os.path.basename(mli), os.path.basename(ml), os.path.basename(drv), "-o", exe],
                       cwd=outdir, timeout=600)
        if rc != 0:
            raise RuntimeError("oracle build failed: %s\n%s" % (o[-3000:], e[-3000:]))
        open(stamp, "w").write(sig)
    finally:
        lk.close()
    return exe


# ---------------------------------------------------------------- known findings

def load_findings():
    """known_findings.txt: `finding: property=Cnn key=<key> <text>` / `fixed: property=Cnn <commit> <text>`"""
    res = {"finding": [], "fixed": []}
    p = os.path.join(VERIF, "known_findings.txt")
    if not os.path.exists(p):
        return res
    for line in open(p):
        line = line.strip()
        if not line or line.startswith("#"):
            continue
        m = re.match(r"(finding|fixed):\s+property=(C\d+)\s+(.*)$", line)
        if not m:
            continue
        kind, prop, rest = m.groups()
        key = None
        mk = re.match(r"key=(\S+)\s*(.*)$", rest)
        if mk:
            key, rest = mk.group(1), mk.group(2)
        res[kind].append({"property": prop, "key": key, "text": rest})
    return res


# ---------------------------------------------------------------- result of a check

class Check:
    def __init__(self, prop, tier):
        self.prop = prop
        self.tier = tier
        self.seed = seed_from_env()
        self.rng = Prng(self.seed).fork(prop)
        self.t0 = time.time()
        self.violations = []      # (key, description, replay dict, found_input)
        self.known_hits = []
        self.coverage = {}
        self.assumptions = []
        self.samples = []
        self.findings = load_findings()
        self.level = "proof"
        self.trusted_base = []
        self.obligations = 0
        self.discharged = 0
        self.evaluations = 0
        self.distinct = set()
        self.histo = {}
        self.notes = []

    # -- bookkeeping
    def count(self, key, n=1):
        self.histo[key] = self.histo.get(key, 0) + n

    def case(self, fingerprint, nontrivial=True):
        self.evaluations += 1
        if nontrivial:
            self.distinct.add(hashlib.md5(repr(fingerprint).encode()).digest()[:8])

    def sample(self, s, limit=6):
        if len(self.samples) < limit:
            self.samples.append(s)

    def budget(self, quick, thorough):
        return thorough if self.tier == "thorough" else quick

    # -- violations
    def violation(self, key, what, replay, found_input=True):
        """key: stable identifier of the failing input (used to match known findings)."""
        for f in self.findings["finding"]:
            if f["property"] == self.prop and f["key"] == key:
                if key not in [k for k, _ in self.known_hits]:
                    self.known_hits.append((key, f["text"] or what))
                return
        for (k, _, _, _) in self.violations:
            if k == key:
                return
        self.violations.append((key, what, replay, found_input))

    # -- Coq part
    def prove(self, timeout=1500):
        bad = forbidden_scan()
        res = check_property_file(self.prop, timeout=timeout)
        self.coq = res
        self.obligations = len(res["theorems"])
        self.discharged = len(res["theorems"]) if res["ok"] else 0
        self.coverage["theorems"] = res["theorems"]
        self.coverage["print_assumptions"] = res["assumptions"]
        self.coverage["coq_wall_s"] = res["wall_s"]
        if bad:
            self.coverage["forbidden_constructs"] = bad
            self.discharged = 0
            self.proof_broken = {"kind": "forbidden-construct", "where": bad[:5]}
        elif not res["ok"]:
            self.proof_broken = {"kind": "proof-obligation", "failure": res["failure"]}
        else:
            self.proof_broken = None
            axs = sorted({a for v in res["assumptions"].values() if v for a in v})
            self.coverage["axioms_used"] = axs
        return self.proof_broken is None

    def translate_and_prove(self, units, timeout=1500):
        """Regenerate coq/Gen from /repo's working tree for the given translator units, then prove().  A translator that
        refuses the current source (construct outside its subset, function gone) is a broken tie: the stale generated
        file is not trusted, no theorem counts as discharged."""
        broken = translate(units)
        self.coverage["translator_units"] = list(units)
        if UNLISTED_BROKEN:
            self.notes.append("translator units this check does not name refused the current source (their generated files were removed): "
                              + "; ".join(x[:200] for x in UNLISTED_BROKEN))
        if broken:
            self.proof_broken = {"kind": "translator", "messages": broken}
            self.notes.append("translator refused the current source: " + "; ".join(broken))
            self.obligations = len(property_theorems(self.prop))
            self.discharged = 0
            self.coverage["theorems"] = property_theorems(self.prop)
            return False
        return self.prove(timeout=timeout)

    def finish(self):
        """Write evidence, print verdict lines, return exit code."""
        # A broken proof with no concrete failing input found still is a violation.
        if getattr(self, "proof_broken", None) and not self.violations:
            self.violation("broken-proof", "proof obligation of %s no longer checks" % self.prop,
                           {"broken": self.proof_broken, "note": "searched the model and the implementation; no failing input found"},
                           found_input=False)
        elif getattr(self, "proof_broken", None):
            for i, (k, w, r, fi) in enumerate(self.violations):
                r = dict(r)
                r["broken_proof"] = self.proof_broken
                self.violations[i] = (k, w, r, fi)
        wall = time.time() - self.t0
        cov = dict(self.coverage)
        cov.update({
            "obligations": max(self.obligations, 0),
            "discharged": self.discharged,
            "checker_cmd": "make -C coq Props/Properties_%s.vo  (coqc 8.16.1, full .vo build; Print Assumptions under every theorem)" % self.prop,
            "trusted_base": self.trusted_base,
            "evaluations": self.evaluations,
            "distinct_nontrivial": len(self.distinct),
            "samples": self.samples if self.samples else ["(no correspondence cases in this run)"],
            "distribution": self.histo,
            "known_findings_hit": [k for k, _ in self.known_hits],
        })
        if self.notes:
            cov["notes"] = self.notes
        ev = {
            "property_id": self.prop, "tier": self.tier, "seed": self.seed, "level": self.level,
            "coverage": cov, "assumptions": self.assumptions, "wall_s": round(wall, 2),
            "violations": len(self.violations),
        }
        os.makedirs(EVID, exist_ok=True)
        with open(os.path.join(EVID, "%s.json" % self.prop), "w") as f:
            json.dump(ev, f, indent=1, sort_keys=True, default=str)
            f.write("\n")
        for key, text in self.known_hits:
            print("KNOWN-FINDING: property=%s %s (%s)" % (self.prop, text, key))
        rc = 0
        if self.violations:
            rc = 1
            d = os.path.join(REPLAYS, self.prop)
            os.makedirs(d, exist_ok=True)
            for key, what, replay, found in self.violations:
                safe = re.sub(r"[^A-Za-z0-9_.-]+", "_", key)[:80]
                p = os.path.join(d, "%s.json" % safe)
                with open(p, "w") as f:
                    json.dump({"property": self.prop, "key": key, "what": what, "seed": self.seed,
                               "tier": self.tier, "replay": replay}, f, indent=1, default=str)
                    f.write("\n")
                tail = "" if found else " no-failing-input-found"
                nprinted = getattr(self, "_nprinted", 0)
                if nprinted < 8:
                    print("VIOLATION property=%s replay=%s%s" % (self.prop, p, tail))
                    log("  -> %s" % what)
                elif nprinted == 8:
                    log("  (%d violations in total; all replays are under %s)" % (len(self.violations), d))
                self._nprinted = nprinted + 1
        else:
            print("OK property=%s tier=%s obligations=%d/%d cases=%d distinct=%d wall=%.1fs" % (
                self.prop, self.tier, self.discharged, self.obligations, self.evaluations, len(self.distinct), wall))
        return rc


BASE_TRUST = [
    "Coq 8.16.1 kernel via coqc (full .vo build; vm_compute used, native_compute not used)",
    "no Axiom/Parameter/Admitted/guard-off in the development (grep is part of every check)",
]


# ---------------------------------------------------------------- translate + batch helpers

UNLISTED_BROKEN = []


def translate(units):
    """Regenerate coq/Gen from the tree being checked.  ALL translator units are run (in parallel, about ten seconds), not
    only the ones the check names: a generated file left behind by a run on another tree (VERIF_REPO, a change that was
    applied and undone) must never be what a theorem is checked against.  Returns the BROKEN-TIE messages of the units the
    check names (empty = fine).  A broken unit the check does not name is not this check's tie: its generated files are
    removed by gen.py, so a theorem that needs one fails to build and is reported as a broken proof; the messages are kept
    in UNLISTED_BROKEN for the evidence notes."""
    rc, out, err = run([sys.executable, os.path.join(VERIF, "translate", "gen.py")], timeout=900)
    lines = [l for l in out.split("\n") if l.startswith("BROKEN-TIE")]
    named = set(units)
    broken = [l for l in lines if any(("unit=%s " % u) in l + " " for u in named)]
    UNLISTED_BROKEN[:] = [l for l in lines if l not in broken]
    if rc not in (0, 3) and not lines:
        broken.append("BROKEN-TIE translator crashed: %s" % (err[-600:],))
    return broken


def batch(exe, lines, timeout=600, env=None, cwd=None):
    """Feed lines to a line-protocol program, return its output lines (one per input line expected)."""
    rc, out, err = run([exe] if isinstance(exe, str) else exe, input="\n".join(lines) + "\n", timeout=timeout, env=env, cwd=cwd)
    res = out.split("\n")
    if res and res[-1] == "":
        res.pop()
    if len(res) != len(lines):
        raise RuntimeError("%s answered %d lines for %d inputs (rc=%s): %s" % (exe, len(res), len(lines), rc, err[-500:]))
    return res


def hexs(b):
    if isinstance(b, str):
        b = b.encode("latin1")
    return b.hex() if b else "-"
