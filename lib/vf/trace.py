"""Write ovni traces byte by byte (so illegal ones are expressible) and run the tools on them."""
import json
import os
import shutil
import struct
import subprocess
import tempfile
import concurrent.futures as cf

from . import common

STREAM_HEADER = b"ovni" + struct.pack("<I", 1)


def ev_bytes(mcv, clock, payload=b"", jumbo=None, flags_hi=0):
    """Encode one event. payload: bytes of length 0 or 2..16 (normal) ; jumbo: bytes or None."""
    if isinstance(mcv, str):
        mcv = mcv.encode("latin1")
    if jumbo is not None:
        pl = struct.pack("<I", len(jumbo)) + jumbo
        flags = 0x10 | 0x03 | (flags_hi & 0xE0)
    else:
        pl = payload
        n = len(pl)
        flags = (flags_hi & 0xF0) | ((n - 1) & 0x0F if n else 0)
    return struct.pack("<B3sQ", flags, mcv, clock & 0xFFFFFFFFFFFFFFFF) + pl


def parse_obs(data):
    """Independent parser of stream.obs bytes -> (ok, events, error). events: dict(mcv, clock, payload, jumbo, off, size)"""
    if len(data) < 8:
        return False, [], "short header"
    if data[:4] != b"ovni":
        return False, [], "bad magic"
    if struct.unpack("<I", data[4:8])[0] != 1:
        return False, [], "bad version"
    off = 8
    evs = []
    n = len(data)
    while off < n:
        if off + 12 > n:
            return False, evs, "truncated header at %d" % off
        flags, mcv, clock = struct.unpack("<B3sQ", data[off:off + 12])
        if flags & 0x10:
            if off + 16 > n:
                return False, evs, "truncated jumbo size at %d" % off
            js = struct.unpack("<I", data[off + 12:off + 16])[0]
            size = 16 + js
            if off + size > n:
                return False, evs, "truncated jumbo at %d" % off
            evs.append({"mcv": mcv.decode("latin1"), "clock": clock, "payload": data[off + 12:off + 16],
                        "jumbo": data[off + 16:off + size], "off": off, "size": size, "flags": flags})
        else:
            ps = flags & 0x0F
            if ps:
                ps += 1
            size = 12 + ps
            if off + size > n:
                return False, evs, "truncated payload at %d" % off
            evs.append({"mcv": mcv.decode("latin1"), "clock": clock, "payload": data[off + 12:off + size],
                        "jumbo": None, "off": off, "size": size, "flags": flags})
        off += size
    return True, evs, None


def thread_meta(tid, pid, loom, app_id=1, require=None, cpus=None, rank=None, nranks=None,
                finished=1, extra=None, version=3):
    ovni = {"lib": {"version": "1.11.0", "commit": "verif"}, "part": "thread", "tid": tid, "pid": pid,
            "loom": loom}
    if app_id is not None:
        ovni["app_id"] = app_id
    ovni["require"] = dict(require) if require is not None else {"ovni": "1.1.0"}
    if rank is not None:
        ovni["rank"] = rank
    if nranks is not None:
        ovni["nranks"] = nranks
    if cpus is not None:
        ovni["loom_cpus"] = [{"index": i, "phyid": p} for (i, p) in cpus]
    if finished is not None:
        ovni["finished"] = finished
    if extra:
        for k, v in extra.items():
            _dotset(ovni, k, v)
    return {"version": version, "ovni": ovni}


def _dotset(d, key, v):
    parts = key.split(".")
    for p in parts[:-1]:
        d = d.setdefault(p, {})
    d[parts[-1]] = v


class Trace:
    """A trace under construction: list of threads, each (loom, pid, tid, meta dict or raw bytes, obs bytes)."""

    def __init__(self):
        self.threads = []

    def add_thread(self, loom, pid, tid, meta, events=None, obs=None):
        """events: list of bytes (already encoded) or obs: raw file bytes."""
        if obs is None:
            obs = STREAM_HEADER + b"".join(events or [])
        self.threads.append({"loom": loom, "pid": pid, "tid": tid, "meta": meta, "obs": obs})
        return self

    def write(self, root, order=None):
        idxs = order if order is not None else range(len(self.threads))
        for i in idxs:
            t = self.threads[i]
            d = os.path.join(root, "loom.%s" % t["loom"], "proc.%d" % t["pid"], "thread.%d" % t["tid"])
            os.makedirs(d, exist_ok=True)
            with open(os.path.join(d, "stream.obs"), "wb") as f:
                f.write(t["obs"])
            m = t["meta"]
            if m is not None:
                with open(os.path.join(d, "stream.json"), "wb") as f:
                    if isinstance(m, (bytes, bytearray)):
                        f.write(m)
                    else:
                        f.write(json.dumps(m, indent=1).encode())
        return root


def workdir(prefix="ovni-verif-"):
    base = os.environ.get("VERIF_SCRATCH", "/var/tmp")
    return tempfile.mkdtemp(prefix=prefix, dir=base)


EMPTY_CFG = None


def empty_cfg():
    global EMPTY_CFG
    if EMPTY_CFG is None:
        d = os.path.join(common.BUILD, "empty-cfg")
        os.makedirs(d, exist_ok=True)
        EMPTY_CFG = d
    return EMPTY_CFG


def run_tool(build, tool, args, tracedir, timeout=20, env=None):
    e = {"OVNI_CONFIG_DIR": empty_cfg()}
    if env:
        e.update(env)
    full = dict(os.environ)
    full.update(e)
    # a tool that does not finish in `timeout` seconds is run once more with six times the budget before it is called
    # a hang: on a loaded machine (16 workers, other builds) a millisecond job can be starved for many seconds, and a
    # timeout is reported by the checks as a violation (C19: "never loop forever")
    for attempt, tmo in enumerate((timeout, timeout * 6)):
        try:
            p = subprocess.run([build.tool(tool)] + list(args) + [tracedir], stdout=subprocess.PIPE,
                               stderr=subprocess.PIPE, timeout=tmo, env=full)
            return p.returncode, p.stdout.decode(errors="replace"), p.stderr.decode(errors="replace")
        except subprocess.TimeoutExpired as t:
            last = t
    return "timeout", (last.stdout or b"").decode(errors="replace"), (last.stderr or b"").decode(errors="replace")


def parse_prv(path):
    """-> (header dict, list of (time,row,type,value)) ; rows are the 'thread' field of the Paraver object id"""
    lines = open(path).read().split("\n")
    hdr = lines[0]
    recs = []
    for ln in lines[1:]:
        if not ln or ln.startswith("#") or ln.startswith("c"):
            continue
        f = ln.split(":")
        if f[0] != "2":
            continue
        # 2:cpu:appl:task:thread:time:type:value[:type:value...]
        row = int(f[4])
        t = int(f[5])
        rest = f[6:]
        for i in range(0, len(rest), 2):
            recs.append((t, row, int(rest[i]), int(rest[i + 1])))
    return hdr, recs


def prv_rows(recs):
    """canonical form: {(row,type): [(time,value),...]}"""
    d = {}
    for (t, row, ty, v) in recs:
        d.setdefault((row, ty), []).append((t, v))
    return d


def pmap(fn, items, workers=None):
    workers = workers or common.NCPU
    with cf.ThreadPoolExecutor(max_workers=workers) as ex:
        return list(ex.map(fn, items))
