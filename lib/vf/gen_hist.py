"""Generators of thread/affinity/model-event histories for the e2e emulator-core checks."""
from . import emucore
from .emucore import Scenario, i32

LEGAL = {
    "Unknown": ["x"], "Dead": [], "Running": ["c", "p", "e"], "Cooling": ["p", "e"],
    "Paused": ["w", "r"], "Warming": ["r"],
}
NEXT = {"x": "Running", "e": "Dead", "p": "Paused", "r": "Running", "c": "Cooling", "w": "Warming"}


def base_scenario(rng, tables, nthreads=None, nlooms=None, models=("ovni",)):
    s = Scenario()
    for m in tables["models"]:
        s.versions[m["name"]] = m["version"]
    s.enabled = list(models)
    nlooms = nlooms or rng.choice([1, 1, 1, 2])
    names = ["la", "lb"][:nlooms]
    for n in names:
        ncpu = rng.range(1, 3)
        # loom-local index -> phyid; phyids not in index order on purpose
        phy = rng.shuffle(list(range(ncpu)))
        s.looms[n] = [(i, phy[i] + (10 if n == "lb" else 0)) for i in range(ncpu)]
    nthreads = nthreads or rng.range(1, 4)
    tid = 100
    for i in range(nthreads):
        loom = rng.choice(names) if i >= len(names) else names[i]
        pid = 10 + rng.below(2) + (50 if loom == "lb" else 0)
        tid += rng.range(1, 3)
        s.threads.append({"loom": loom, "pid": pid, "tid": tid})
    return s


def thread_history(rng, s, length, p_legal_num=85, with_affinity=True, end_all=True, careful=None):
    """fills s.events with OH*/OA* events; returns the python-side shadow state (for other generators).
    careful: mostly-valid stream (legal transitions, free CPUs, valid affinity targets)."""
    n = len(s.threads)
    st = ["Unknown"] * n
    cpu = [None] * n
    clk = 10
    ncpus = {name: len(c) for name, c in s.looms.items()}
    if careful is None:
        careful = rng.chance(3, 5)

    def free_cpu(loom, me):
        # a CPU index of the loom on which no other thread is running; else the vCPU
        busy = set(cpu[u] for u in range(n) if u != me and s.threads[u]["loom"] == loom and st[u] == "Running")
        cands = [i for i in range(ncpus[loom]) if i not in busy]
        return rng.choice(cands) if cands and not rng.chance(1, 6) else -1

    for _ in range(length):
        t = rng.below(n)
        loom = s.threads[t]["loom"]
        clk += rng.range(1, 5)
        legal = LEGAL[st[t]]
        r = rng.below(100)
        if careful:
            if with_affinity and r < 15 and st[t] in ("Running", "Cooling", "Warming"):
                if rng.chance(1, 2):
                    idx = free_cpu(loom, t) if st[t] == "Running" else rng.range(-1, ncpus[loom] - 1)
                    s.events.append((t, clk, "OAs", i32(idx)))
                    cpu[t] = idx
                    continue
                cands = [u for u in range(n) if s.threads[u]["loom"] == loom and st[u] not in ("Unknown", "Dead")]
                u = rng.choice(cands)
                idx = free_cpu(loom, u) if st[u] == "Running" else rng.range(-1, ncpus[loom] - 1)
                if idx != cpu[u]:
                    s.events.append((t, clk, "OAr", i32(idx) + i32(s.threads[u]["tid"])))
                    cpu[u] = idx
                    continue
            if not legal:
                continue
            v = rng.choice(legal)
            if v == "e" and rng.chance(1, 2):
                v = rng.choice(legal)
            if v == "r":
                # resuming on a CPU where somebody else runs would oversubscribe: move away first
                busy = any(u != t and s.threads[u]["loom"] == loom and st[u] == "Running" and cpu[u] == cpu[t] and cpu[t] != -1 for u in range(n))
                if busy:
                    continue
            if v == "x":
                idx = free_cpu(loom, t)
                cpu[t] = idx
                s.events.append((t, clk, "OHx", i32(idx) + i32(s.threads[t]["tid"]) + i32(0)))
            else:
                s.events.append((t, clk, "OH" + v, b""))
            st[t] = NEXT[v]
            continue
        if with_affinity and r < 18:
            if rng.chance(1, 2):
                idx = rng.range(-1, ncpus[loom]) if rng.chance(1, 8) else rng.range(0, ncpus[loom] - 1) if rng.chance(3, 4) else -1
                s.events.append((t, clk, "OAs", i32(idx)))
            else:
                # remote: a thread of the same loom (sometimes another loom / unknown tid)
                cands = [u for u in range(n) if s.threads[u]["loom"] == loom]
                u = rng.choice(cands)
                tid = s.threads[u]["tid"] if not rng.chance(1, 12) else 999
                idx = rng.range(0, ncpus[loom] - 1) if rng.chance(3, 4) else -1
                s.events.append((t, clk, "OAr", i32(idx) + i32(tid)))
            continue
        if legal and r < p_legal_num + 15:
            v = rng.choice(legal)
        else:
            v = rng.choice(["x", "e", "p", "r", "c", "w"])
        if v == "x":
            idx = rng.range(0, ncpus[loom] - 1) if rng.chance(4, 5) else (-1 if rng.chance(2, 3) else ncpus[loom] + 1)
            s.events.append((t, clk, "OHx", i32(idx) + i32(s.threads[t]["tid"]) + i32(0)))
        else:
            s.events.append((t, clk, "OH" + v, b""))
        if v in legal:
            st[t] = NEXT[v]
    if end_all:
        for t in range(n):
            path = {"Unknown": ["x", "e"], "Running": ["e"], "Cooling": ["e"], "Paused": ["r", "e"], "Warming": ["r", "e"], "Dead": []}[st[t]]
            for v in path:
                clk += rng.range(1, 3)
                if v == "x":
                    s.events.append((t, clk, "OHx", i32(-1) + i32(s.threads[t]["tid"]) + i32(0)))
                else:
                    s.events.append((t, clk, "OH" + v, b""))
    return st
