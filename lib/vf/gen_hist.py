"""Generators of thread/affinity/model-event histories for the e2e emulator-core checks."""
from . import emucore
from .emucore import Scenario, i32

LEGAL = {
    "Unknown": ["x"], "Dead": [], "Running": ["c", "p", "e"], "Cooling": ["p", "e"],
    "Paused": ["w", "r"], "Warming": ["r"],
}
NEXT = {"x": "Running", "e": "Dead", "p": "Paused", "r": "Running", "c": "Cooling", "w": "Warming"}


def base_scenario(rng, tables, nthreads=None, nlooms=None, models=("ovni",)):
    s = Scenario()
    for m in tables["models"]:
        s.versions[m["name"]] = m["version"]
    s.enabled = list(models)
    nlooms = nlooms or rng.choice([1, 1, 1, 2])
    names = ["la", "lb"][:nlooms]
    for n in names:
        ncpu = rng.range(1, 3)
        # loom-local index -> phyid; phyids not in index order on purpose
        phy = rng.shuffle(list(range(ncpu)))
        s.looms[n] = [(i, phy[i] + (10 if n == "lb" else 0)) for i in range(ncpu)]
    nthreads = nthreads or rng.range(1, 4)
    tid = 100
    # TIDs are only unique per node: with two looms, sometimes reuse the TIDs of the first loom in the second
    reuse = nlooms == 2 and rng.chance(1, 2)
    for i in range(nthreads):
        loom = rng.choice(names) if i >= len(names) else names[i]
        pid = 10 + rng.below(2) + (50 if loom == "lb" else 0)
        tid += rng.range(1, 3)
        mytid = tid
        if reuse and loom == "lb":
            taken = [t["tid"] for t in s.threads if t["loom"] == "lb"]
            cands = [t["tid"] for t in s.threads if t["loom"] == "la" and t["tid"] not in taken]
            if cands:
                mytid = rng.choice(cands)
        s.threads.append({"loom": loom, "pid": pid, "tid": mytid})
    return s


def thread_history(rng, s, length, p_legal_num=85, with_affinity=True, end_all=True, careful=None, spice=False):
    """fills s.events with OH*/OA* events; returns the python-side shadow state (for other generators).
    careful: mostly-valid stream (legal transitions, free CPUs, valid affinity targets)."""
    n = len(s.threads)
    st = ["Unknown"] * n
    cpu = [None] * n
    clk = 10
    ncpus = {name: len(c) for name, c in s.looms.items()}
    if careful is None:
        careful = rng.chance(3, 5)

    def free_cpu(loom, me):
        # a CPU index of the loom on which no other thread is running; else the vCPU
        busy = set(cpu[u] for u in range(n) if u != me and s.threads[u]["loom"] == loom and st[u] == "Running")
        cands = [i for i in range(ncpus[loom]) if i not in busy]
        return rng.choice(cands) if cands and not rng.chance(1, 6) else -1

    for _ in range(length):
        t = rng.below(n)
        loom = s.threads[t]["loom"]
        clk += rng.range(1, 5)
        legal = LEGAL[st[t]]
        r = rng.below(100)
        if careful:
            if with_affinity and r < 15 and st[t] in ("Running", "Cooling", "Warming"):
                if rng.chance(1, 2):
                    idx = free_cpu(loom, t) if st[t] == "Running" else rng.range(-1, ncpus[loom] - 1)
                    s.events.append((t, clk, "OAs", i32(idx)))
                    cpu[t] = idx
                    continue
                cands = [u for u in range(n) if s.threads[u]["loom"] == loom and st[u] not in ("Unknown", "Dead")]
                u = rng.choice(cands)
                idx = free_cpu(loom, u) if st[u] == "Running" else rng.range(-1, ncpus[loom] - 1)
                if idx != cpu[u]:
                    s.events.append((t, clk, "OAr", i32(idx) + i32(s.threads[u]["tid"])))
                    cpu[u] = idx
                    continue
            if spice and with_affinity and r >= 97:
                # a remote affinity event naming the CPU its target is already on (the documentation is silent; if
                # the emulator accepts it nothing may move)
                cands = [u for u in range(n) if s.threads[u]["loom"] == loom and st[u] not in ("Unknown", "Dead") and cpu[u] is not None]
                if cands:
                    u = rng.choice(cands)
                    s.events.append((t, clk, "OAr", i32(cpu[u]) + i32(s.threads[u]["tid"])))
                    continue
            if spice and r == 96 and st[t] not in ("Unknown", "Dead"):
                # ONE illegal event in an otherwise legal history that goes on legally afterwards: the last event of
                # this thread once more (no state of the machine allows the same event twice in a row)
                last = [e for e in s.events if e[0] == t and e[2][:2] == "OH"]
                if last:
                    s.events.append((t, clk, last[-1][2], last[-1][3]))
                    spice = False
                    continue
            if not legal:
                continue
            v = rng.choice(legal)
            if v == "e" and rng.chance(1, 2):
                v = rng.choice(legal)
            if v == "r":
                # resuming on a CPU where somebody else runs would oversubscribe: move away first
                busy = any(u != t and s.threads[u]["loom"] == loom and st[u] == "Running" and cpu[u] == cpu[t] and cpu[t] != -1 for u in range(n))
                if busy:
                    continue
            if v == "x":
                idx = free_cpu(loom, t)
                cpu[t] = idx
                s.events.append((t, clk, "OHx", i32(idx) + i32(s.threads[t]["tid"]) + i32(0)))
            else:
                s.events.append((t, clk, "OH" + v, b""))
            st[t] = NEXT[v]
            continue
        if with_affinity and r < 18:
            if rng.chance(1, 2):
                idx = rng.range(-1, ncpus[loom]) if rng.chance(1, 8) else rng.range(0, ncpus[loom] - 1) if rng.chance(3, 4) else -1
                s.events.append((t, clk, "OAs", i32(idx)))
            else:
                # remote: a thread of the same loom (sometimes another loom / unknown tid)
                cands = [u for u in range(n) if s.threads[u]["loom"] == loom]
                u = rng.choice(cands)
                tid = s.threads[u]["tid"] if not rng.chance(1, 12) else 999
                idx = rng.range(0, ncpus[loom] - 1) if rng.chance(3, 4) else -1
                s.events.append((t, clk, "OAr", i32(idx) + i32(tid)))
            continue
        if legal and r < p_legal_num + 15:
            v = rng.choice(legal)
        else:
            v = rng.choice(["x", "e", "p", "r", "c", "w"])
        if v == "x":
            idx = rng.range(0, ncpus[loom] - 1) if rng.chance(4, 5) else (-1 if rng.chance(2, 3) else ncpus[loom] + 1)
            s.events.append((t, clk, "OHx", i32(idx) + i32(s.threads[t]["tid"]) + i32(0)))
        else:
            s.events.append((t, clk, "OH" + v, b""))
        if v in legal:
            st[t] = NEXT[v]
    if end_all:
        for t in range(n):
            path = {"Unknown": ["x", "e"], "Running": ["e"], "Cooling": ["e"], "Paused": ["r", "e"], "Warming": ["r", "e"], "Dead": []}[st[t]]
            for v in path:
                clk += rng.range(1, 3)
                if v == "x":
                    s.events.append((t, clk, "OHx", i32(-1) + i32(s.threads[t]["tid"]) + i32(0)))
                else:
                    s.events.append((t, clk, "OH" + v, b""))
    return st


def replay_states(s):
    """shadow replay of the OH* events: returns for each event index the state of its thread AFTER it, or None if illegal"""
    st = {}
    out = []
    for (t, clk, mcv, pl) in s.events:
        cur = st.get(t, "Unknown")
        if mcv.startswith("OH") and mcv[2] in NEXT:
            if mcv[2] in LEGAL[cur]:
                cur = NEXT[mcv[2]]
                st[t] = cur
        out.append(cur)
    return out


def add_model_events(rng, s, tables, density_num=60, wrong_num=4):
    """inserts model events (table-driven push/pop/set, flush, kernel) between the existing events.
    Clocks are multiplied by 100 first."""
    after = replay_states(s)
    base = [(t, clk * 100, mcv, pl) for (t, clk, mcv, pl) in s.events]
    ids = {m["dir"]: m["id"] for m in tables["models"]}
    names = {m["dir"]: m["name"] for m in tables["models"]}
    tab = {}
    for e in tables["table"]:
        if names[e["model"]] in s.enabled:
            tab.setdefault(e["model"], []).append(e)
    stacks = {}      # (thread, model, chan) -> list
    ooc = {}
    new = []
    for i, (t, clk, mcv, pl) in enumerate(base):
        new.append((t, clk, mcv, pl))
        state = after[i]
        nxt = base[i + 1][1] if i + 1 < len(base) else clk + 100
        room = min(90, nxt - clk - 1)
        k = 0
        c = clk
        while room > 2 and rng.below(100) < density_num and k < 6:
            k += 1
            c += rng.range(1, max(1, room // 8))
            if c >= nxt:
                break
            kind = rng.below(100)
            if "kernel" in s.enabled and kind < 8 and c + 3 < nxt:
                # out of CPU and back in within the gap (ovni and nOS-V events are refused while out)
                new.append((t, c, "KCO", b""))
                if rng.chance(1, 3) and state == "Running":
                    safe = [m for m in sorted(tab) if m in ("nanos6", "mpi", "tampi", "nodes", "openmp")]
                    if safe:
                        m = rng.choice(safe)
                        e = rng.choice([e for e in tab[m] if e["action"] == "IGN"] or [None])
                        if e:
                            new.append((t, c + 1, chr(ids[m]) + chr(e["c"]) + chr(e["v"]), b""))
                if rng.chance(1, 25):
                    new.append((t, c + 1, "OF[", b""))      # refused: out of CPU
                c += 2
                new.append((t, c, "KCI", b""))
                continue
            if kind < 14 and state in ("Running", "Cooling", "Warming", "Paused"):
                fl = stacks.setdefault((t, "ovni", "flush"), [])
                if fl:
                    new.append((t, c, "OF]", b"")); fl.pop()
                else:
                    new.append((t, c, "OF[", b"")); fl.append(1)
                continue
            if not tab:
                continue
            model = rng.choice(sorted(tab))
            okstates = ("Running", "Cooling", "Warming") if model in ("nosv", "nanos6") else ("Running",)
            if state not in okstates and not rng.chance(1, 25):
                continue
            ents = tab[model]
            mid = chr(ids[model])
            r = rng.below(100)
            if r < wrong_num:
                # an event code that is not in the table
                new.append((t, c, mid + rng.choice("SUMAHPRWTC") + rng.choice("zZ9"), b""))
                continue
            if r < 50:
                # pop something open, usually correctly
                opened = [(key, stk) for key, stk in stacks.items() if key[0] == t and key[1] == model and stk]
                if opened:
                    key, stk = rng.choice(opened)
                    val = stk[-1] if not rng.chance(wrong_num, 100) else (stk[0] if len(stk) > 1 else stk[-1] + 1)
                    pops = [e for e in ents if e["action"] == "POP" and e["chan"] == key[2] and e["value"] == val]
                    if pops:
                        e = rng.choice(pops)
                        new.append((t, c, mid + chr(e["c"]) + chr(e["v"]), b""))
                        if val == stk[-1]:
                            stk.pop()
                        continue
            e = rng.choice(ents)
            if e["action"] == "PUSH":
                stk = stacks.setdefault((t, model, e["chan"]), [])
                if stk and stk[-1] == e["value"] and not rng.chance(1, 6):
                    continue
                new.append((t, c, mid + chr(e["c"]) + chr(e["v"]), b""))
                if state in okstates:
                    stk.append(e["value"])
            elif e["action"] in ("SET", "IGN"):
                new.append((t, c, mid + chr(e["c"]) + chr(e["v"]), b""))
            elif e["action"] == "POP" and rng.chance(wrong_num, 100):
                new.append((t, c, mid + chr(e["c"]) + chr(e["v"]), b""))
    s.events = new
    return stacks


def u32(x):
    import struct
    return struct.pack("<I", x & 0xFFFFFFFF)


def _running(tasks, pr, stk):
    if not stk:
        return None
    (tid, bid) = stk[-1]
    return (tid, bid) if tasks[pr][tid]["bodies"][bid]["st"] == "R" else None


def task_history(rng, s, tables, model, build, wrong_num=2):
    """a scenario with task events of `model` ('nosv' or 'nanos6') on top of a simple thread history"""
    from .emucore import Jumbo, gids, task_label
    M = "V" if model == "nosv" else "6"
    n = len(s.threads)
    clk = 10
    ev = s.events
    # ranks per process
    procs = sorted(set((t["loom"], t["pid"]) for t in s.threads))
    if rng.chance(1, 2):
        for i, pr in enumerate(procs):
            for t in s.threads:
                if (t["loom"], t["pid"]) == pr:
                    t["rank"] = i
                    t["nranks"] = len(procs)
    for t in s.threads:
        t["app"] = 1 + rng.below(3) if rng.chance(1, 3) else 1
    # appid must agree within a process
    for pr in procs:
        app = None
        for t in s.threads:
            if (t["loom"], t["pid"]) == pr:
                app = app or t["app"]
                t["app"] = app
    ncpu = {name: len(c) for name, c in s.looms.items()}
    used = {}
    for t in range(n):
        clk += 2
        loom = s.threads[t]["loom"]
        k = used.get(loom, 0)
        idx = k if k < ncpu[loom] else -1
        used[loom] = k + 1
        ev.append((t, clk, "OHx", i32(idx) + i32(s.threads[t]["tid"]) + i32(0)))
    tstate = ["Running"] * n
    # types and tasks per process
    labels = ["", "main", "work", "a long task type label", "w"]
    types = {}     # proc -> list of typeids
    typelabel = {} # (proc, typeid) -> label the emulator will use
    tasks = {}     # proc -> {taskid: dict(par, bodies{bid: state}, on)}
    stacks = {t: [] for t in range(n)}
    need_labels = set()
    shadow = []   # (clock, thread, (taskid, bodyid) of the running body or None, thread state)
    s.task_shadow = shadow
    s.task_info = tasks
    s.task_types = types
    s.task_stacks = stacks
    s.task_tstate = tstate
    for pr in procs:
        tl = [t for t in range(n) if (s.threads[t]["loom"], s.threads[t]["pid"]) == pr]
        for k in range(rng.range(1, 3)):
            fresh = [x for x in range(1, 8) if x not in types.get(pr, [])]
            typeid = rng.choice(fresh) if not rng.chance(wrong_num, 400) else rng.choice([0] + types.get(pr, [0]))
            lab = rng.choice(labels)
            clk += 2
            ev.append((rng.choice(tl), clk, M + "Yc", Jumbo(u32(typeid) + lab.encode() + b"\0")))
            need_labels.add(task_label(typeid, lab))
            if typeid and typeid not in types.setdefault(pr, []):
                types[pr].append(typeid)
                typelabel[(pr, typeid)] = task_label(typeid, lab)
        for k in range(rng.range(1, 4)):
            if not types.get(pr):
                break
            freshk = [x for x in range(1, 9) if x not in tasks.get(pr, {})]
            taskid = rng.choice(freshk) if not rng.chance(wrong_num, 400) else rng.range(0, 3)
            par = model == "nosv" and rng.chance(1, 4)
            typeid = rng.choice(types[pr]) if not rng.chance(wrong_num, 300) else 9
            clk += 2
            ev.append((rng.choice(tl), clk, M + ("TC" if par else "Tc"), u32(taskid) + u32(typeid)))
            if typeid in types[pr] and taskid not in tasks.setdefault(pr, {}):
                tasks[pr][taskid] = {"par": par, "bodies": {}, "label": typelabel[(pr, typeid)]}
    s.gid = gids(build, sorted(need_labels))
    # random operations
    for _ in range(rng.range(3, 40)):
        t = rng.below(n)
        pr = (s.threads[t]["loom"], s.threads[t]["pid"])
        clk += rng.range(1, 4)
        r = rng.below(100)
        if r < 8:
            # thread state change in between
            if tstate[t] == "Running":
                ev.append((t, clk, "OHp", b"")); tstate[t] = "Paused"
            elif tstate[t] == "Paused":
                ev.append((t, clk, "OHr", b"")); tstate[t] = "Running"
            shadow.append((clk, t, _running(tasks, pr, stacks[t]), tstate[t]))
            continue
        if tstate[t] != "Running" and (wrong_num == 0 or not rng.chance(1, 10)):
            continue
        tk = tasks.get(pr, {})
        if not tk:
            continue
        wrong = rng.chance(wrong_num, 100)
        stk = stacks[t]
        cands = []
        top = stk[-1] if stk else None
        if top:
            (tid, bid) = top
            st = tk[tid]["bodies"][bid]["st"]
            if st == "R":
                cands += [("e", tid, bid)] * 3
                if not tk[tid]["par"]:
                    cands += [("p", tid, bid)] * 2
            elif st == "P":
                cands += [("r", tid, bid)] * 2
        nest_running = model == "nanos6" and top and tk[top[0]]["bodies"][top[1]]["st"] == "R" and rng.chance(2 if getattr(s, "prefer_nesting", False) else 1, 3)
        if not top or tk[top[0]]["bodies"][top[1]]["st"] == "P" or nest_running:
            for tid, info in tk.items():
                if info["par"]:
                    for bid in (1, 2, 3):
                        b = info["bodies"].get(bid)
                        if b is None or (b["st"] == "D" and False):
                            cands.append(("x", tid, bid))
                else:
                    b = info["bodies"].get(0)
                    if b is None or (b["st"] == "D" and model == "nosv"):
                        cands.append(("x", tid, 0))
        if not wrong and not cands:
            continue
        if wrong:
            kind = rng.choice("xepr")
            tid = rng.choice(sorted(tk)) if not rng.chance(1, 5) else 77
            bid = rng.choice([0, 1, 2])
            cands = [(kind, tid, bid)]
            wrong = True
        (kind, tid, bid) = rng.choice(cands)
        payload = u32(tid) + u32(bid) if model == "nosv" else u32(tid)
        if not wrong and kind == "x" and model == "nanos6" and top:
            # Nanos6 nests over a running task inside a subsystem region (submit), closed after the nested task ends
            ev.append((t, clk, "6U[", b""))
            clk += 1
            tk[tid].setdefault("wrapped", set()).add(bid)
        if not wrong and kind == "e" and bid in tk[tid].get("wrapped", ()):
            ev.append((t, clk, M + "T" + kind, payload))
            clk += 1
            ev.append((t, clk, "6U]", b""))
            tk[tid]["wrapped"].discard(bid)
            tk[tid]["bodies"][bid]["st"] = "D"
            stk.pop()
            shadow.append((clk - 1, t, _running(tasks, pr, stk), tstate[t]))
            continue
        ev.append((t, clk, M + "T" + kind, payload))
        if wrong:
            continue
        info = tk[tid]
        if kind == "x":
            info["bodies"][bid] = {"st": "R"}
            stk.append((tid, bid))
        elif kind == "e":
            info["bodies"][bid]["st"] = "D"
            stk.pop()
        elif kind == "p":
            info["bodies"][bid]["st"] = "P"
        elif kind == "r":
            info["bodies"][bid]["st"] = "R"
        shadow.append((clk, t, _running(tasks, pr, stk), tstate[t]))
    if getattr(s, "stop_before_winddown", False):
        s.task_clock = clk
        return
    # wind down
    for t in range(n):
        pr = (s.threads[t]["loom"], s.threads[t]["pid"])
        if tstate[t] == "Paused":
            clk += 1
            ev.append((t, clk, "OHr", b""))
        if rng.chance(9, 10):
            while stacks[t]:
                (tid, bid) = stacks[t][-1]
                st = tasks[pr][tid]["bodies"][bid]["st"]
                clk += 1
                payload = lambda: (u32(tid) + u32(bid) if model == "nosv" else u32(tid))
                if st == "P":
                    ev.append((t, clk, M + "Tr", payload()))
                    clk += 1
                ev.append((t, clk, M + "Te", payload()))
                if bid in tasks[pr][tid].get("wrapped", ()):
                    clk += 1
                    ev.append((t, clk, "6U]", b""))
                tasks[pr][tid]["bodies"][bid]["st"] = "D"
                stacks[t].pop()
        clk += 1
        ev.append((t, clk, "OHe", b""))
