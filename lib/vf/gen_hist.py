"""Generators of thread/affinity/model-event histories for the e2e emulator-core checks."""
from . import emucore
from .emucore import Scenario, i32

LEGAL = {
    "Unknown": ["x"], "Dead": [], "Running": ["c", "p", "e"], "Cooling": ["p", "e"],
    "Paused": ["w", "r"], "Warming": ["r"],
}
NEXT = {"x": "Running", "e": "Dead", "p": "Paused", "r": "Running", "c": "Cooling", "w": "Warming"}


def base_scenario(rng, tables, nthreads=None, nlooms=None, models=("ovni",)):
    s = Scenario()
    for m in tables["models"]:
        s.versions[m["name"]] = m["version"]
    s.enabled = list(models)
    nlooms = nlooms or rng.choice([1, 1, 1, 2])
    names = ["la", "lb"][:nlooms]
    for n in names:
        ncpu = rng.range(1, 3)
        # loom-local index -> phyid; phyids not in index order on purpose
        phy = rng.shuffle(list(range(ncpu)))
        s.looms[n] = [(i, phy[i] + (10 if n == "lb" else 0)) for i in range(ncpu)]
    nthreads = nthreads or rng.range(1, 4)
    tid = 100
    for i in range(nthreads):
        loom = rng.choice(names) if i >= len(names) else names[i]
        pid = 10 + rng.below(2) + (50 if loom == "lb" else 0)
        tid += rng.range(1, 3)
        s.threads.append({"loom": loom, "pid": pid, "tid": tid})
    return s


def thread_history(rng, s, length, p_legal_num=85, with_affinity=True, end_all=True, careful=None):
    """fills s.events with OH*/OA* events; returns the python-side shadow state (for other generators).
    careful: mostly-valid stream (legal transitions, free CPUs, valid affinity targets)."""
    n = len(s.threads)
    st = ["Unknown"] * n
    cpu = [None] * n
    clk = 10
    ncpus = {name: len(c) for name, c in s.looms.items()}
    if careful is None:
        careful = rng.chance(3, 5)

    def free_cpu(loom, me):
        # a CPU index of the loom on which no other thread is running; else the vCPU
        busy = set(cpu[u] for u in range(n) if u != me and s.threads[u]["loom"] == loom and st[u] == "Running")
        cands = [i for i in range(ncpus[loom]) if i not in busy]
        return rng.choice(cands) if cands and not rng.chance(1, 6) else -1

    for _ in range(length):
        t = rng.below(n)
        loom = s.threads[t]["loom"]
        clk += rng.range(1, 5)
        legal = LEGAL[st[t]]
        r = rng.below(100)
        if careful:
            if with_affinity and r < 15 and st[t] in ("Running", "Cooling", "Warming"):
                if rng.chance(1, 2):
                    idx = free_cpu(loom, t) if st[t] == "Running" else rng.range(-1, ncpus[loom] - 1)
                    s.events.append((t, clk, "OAs", i32(idx)))
                    cpu[t] = idx
                    continue
                cands = [u for u in range(n) if s.threads[u]["loom"] == loom and st[u] not in ("Unknown", "Dead")]
                u = rng.choice(cands)
                idx = free_cpu(loom, u) if st[u] == "Running" else rng.range(-1, ncpus[loom] - 1)
                if idx != cpu[u]:
                    s.events.append((t, clk, "OAr", i32(idx) + i32(s.threads[u]["tid"])))
                    cpu[u] = idx
                    continue
            if not legal:
                continue
            v = rng.choice(legal)
            if v == "e" and rng.chance(1, 2):
                v = rng.choice(legal)
            if v == "r":
                # resuming on a CPU where somebody else runs would oversubscribe: move away first
                busy = any(u != t and s.threads[u]["loom"] == loom and st[u] == "Running" and cpu[u] == cpu[t] and cpu[t] != -1 for u in range(n))
                if busy:
                    continue
            if v == "x":
                idx = free_cpu(loom, t)
                cpu[t] = idx
                s.events.append((t, clk, "OHx", i32(idx) + i32(s.threads[t]["tid"]) + i32(0)))
            else:
                s.events.append((t, clk, "OH" + v, b""))
            st[t] = NEXT[v]
            continue
        if with_affinity and r < 18:
            if rng.chance(1, 2):
                idx = rng.range(-1, ncpus[loom]) if rng.chance(1, 8) else rng.range(0, ncpus[loom] - 1) if rng.chance(3, 4) else -1
                s.events.append((t, clk, "OAs", i32(idx)))
            else:
                # remote: a thread of the same loom (sometimes another loom / unknown tid)
                cands = [u for u in range(n) if s.threads[u]["loom"] == loom]
                u = rng.choice(cands)
                tid = s.threads[u]["tid"] if not rng.chance(1, 12) else 999
                idx = rng.range(0, ncpus[loom] - 1) if rng.chance(3, 4) else -1
                s.events.append((t, clk, "OAr", i32(idx) + i32(tid)))
            continue
        if legal and r < p_legal_num + 15:
            v = rng.choice(legal)
        else:
            v = rng.choice(["x", "e", "p", "r", "c", "w"])
        if v == "x":
            idx = rng.range(0, ncpus[loom] - 1) if rng.chance(4, 5) else (-1 if rng.chance(2, 3) else ncpus[loom] + 1)
            s.events.append((t, clk, "OHx", i32(idx) + i32(s.threads[t]["tid"]) + i32(0)))
        else:
            s.events.append((t, clk, "OH" + v, b""))
        if v in legal:
            st[t] = NEXT[v]
    if end_all:
        for t in range(n):
            path = {"Unknown": ["x", "e"], "Running": ["e"], "Cooling": ["e"], "Paused": ["r", "e"], "Warming": ["r", "e"], "Dead": []}[st[t]]
            for v in path:
                clk += rng.range(1, 3)
                if v == "x":
                    s.events.append((t, clk, "OHx", i32(-1) + i32(s.threads[t]["tid"]) + i32(0)))
                else:
                    s.events.append((t, clk, "OH" + v, b""))
    return st


def replay_states(s):
    """shadow replay of the OH* events: returns for each event index the state of its thread AFTER it, or None if illegal"""
    st = {}
    out = []
    for (t, clk, mcv, pl) in s.events:
        cur = st.get(t, "Unknown")
        if mcv.startswith("OH") and mcv[2] in NEXT:
            if mcv[2] in LEGAL[cur]:
                cur = NEXT[mcv[2]]
                st[t] = cur
        out.append(cur)
    return out


def add_model_events(rng, s, tables, density_num=60, wrong_num=4):
    """inserts model events (table-driven push/pop/set, flush, kernel) between the existing events.
    Clocks are multiplied by 100 first."""
    after = replay_states(s)
    base = [(t, clk * 100, mcv, pl) for (t, clk, mcv, pl) in s.events]
    ids = {m["dir"]: m["id"] for m in tables["models"]}
    names = {m["dir"]: m["name"] for m in tables["models"]}
    tab = {}
    for e in tables["table"]:
        if names[e["model"]] in s.enabled:
            tab.setdefault(e["model"], []).append(e)
    stacks = {}      # (thread, model, chan) -> list
    ooc = {}
    new = []
    for i, (t, clk, mcv, pl) in enumerate(base):
        new.append((t, clk, mcv, pl))
        state = after[i]
        nxt = base[i + 1][1] if i + 1 < len(base) else clk + 100
        room = min(90, nxt - clk - 1)
        k = 0
        c = clk
        while room > 2 and rng.below(100) < density_num and k < 6:
            k += 1
            c += rng.range(1, max(1, room // 8))
            if c >= nxt:
                break
            kind = rng.below(100)
            if "kernel" in s.enabled and kind < 8 and c + 3 < nxt:
                # out of CPU and back in within the gap (ovni and nOS-V events are refused while out)
                new.append((t, c, "KCO", b""))
                if rng.chance(1, 3) and state == "Running":
                    safe = [m for m in sorted(tab) if m in ("nanos6", "mpi", "tampi", "nodes", "openmp")]
                    if safe:
                        m = rng.choice(safe)
                        e = rng.choice([e for e in tab[m] if e["action"] == "IGN"] or [None])
                        if e:
                            new.append((t, c + 1, chr(ids[m]) + chr(e["c"]) + chr(e["v"]), b""))
                if rng.chance(1, 25):
                    new.append((t, c + 1, "OF[", b""))      # refused: out of CPU
                c += 2
                new.append((t, c, "KCI", b""))
                continue
            if kind < 14 and state in ("Running", "Cooling", "Warming", "Paused"):
                fl = stacks.setdefault((t, "ovni", "flush"), [])
                if fl:
                    new.append((t, c, "OF]", b"")); fl.pop()
                else:
                    new.append((t, c, "OF[", b"")); fl.append(1)
                continue
            if not tab:
                continue
            model = rng.choice(sorted(tab))
            okstates = ("Running", "Cooling", "Warming") if model in ("nosv", "nanos6") else ("Running",)
            if state not in okstates and not rng.chance(1, 25):
                continue
            ents = tab[model]
            mid = chr(ids[model])
            r = rng.below(100)
            if r < wrong_num:
                # an event code that is not in the table
                new.append((t, c, mid + rng.choice("SUMAHPRWTC") + rng.choice("zZ9"), b""))
                continue
            if r < 50:
                # pop something open, usually correctly
                opened = [(key, stk) for key, stk in stacks.items() if key[0] == t and key[1] == model and stk]
                if opened:
                    key, stk = rng.choice(opened)
                    val = stk[-1] if not rng.chance(wrong_num, 100) else (stk[0] if len(stk) > 1 else stk[-1] + 1)
                    pops = [e for e in ents if e["action"] == "POP" and e["chan"] == key[2] and e["value"] == val]
                    if pops:
                        e = rng.choice(pops)
                        new.append((t, c, mid + chr(e["c"]) + chr(e["v"]), b""))
                        if val == stk[-1]:
                            stk.pop()
                        continue
            e = rng.choice(ents)
            if e["action"] == "PUSH":
                stk = stacks.setdefault((t, model, e["chan"]), [])
                if stk and stk[-1] == e["value"] and not rng.chance(1, 6):
                    continue
                new.append((t, c, mid + chr(e["c"]) + chr(e["v"]), b""))
                if state in okstates:
                    stk.append(e["value"])
            elif e["action"] in ("SET", "IGN"):
                new.append((t, c, mid + chr(e["c"]) + chr(e["v"]), b""))
            elif e["action"] == "POP" and rng.chance(wrong_num, 100):
                new.append((t, c, mid + chr(e["c"]) + chr(e["v"]), b""))
    s.events = new
    return stacks
