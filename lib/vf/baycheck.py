"""In-process correspondence of the bay layer (coq/Emu/BayDefs.v) with the real chan.c / bay.c / mux.c /
track.c / prv.c: harness/bay_h.c (linked against the libemu.a built from /repo's working tree) and
oracle/bay_drv.ml (the extracted model) run the same generated scripts; every channel's value,
last_value, dirty flag and stack depth, every mux's `selected` and the enabled flag of each of its input
callbacks, and the PRV lines in the order the emit callbacks fired are compared after every
bay_propagate.  The generator is aimed at the case splits of coq/Proofs/BayProofs.v."""
import hashlib
import os

from . import common

STATES = [1, 2, 3, 4, 5]          # Running Paused Dead Cooling Warming
FLAGSETS = [2, 2, 2, 16, 16, 16, 1, 1, 2 | 8, 16 | 8, 16 | 4, 1 | 8, 2 | 4 | 8, 1 | 4, 2 | 4]
BARE = [0, 8, 4]                  # a repeated value is an error of the PRV


class Gen:
    """keeps a light picture of the channel contents so that most writes are accepted"""

    def __init__(self, rng, chk):
        self.r = rng
        self.chk = chk
        r = rng
        self.T = r.range(1, 4)
        self.C = r.range(1, 3)
        self.K = r.range(1, 4)
        self.specs = []
        for k in range(self.K):
            stack = 1 if r.chance(1, 2) else 0
            dup = 1 if r.chance(1, 3) else 0
            mode = r.choice([0, 1, 1, 2, 2])
            flags = r.choice(BARE) if r.chance(1, 16) else r.choice(FLAGSETS)
            init = "N"
            if r.chance(1, 5) and (not stack or r.chance(1, 30)):
                init = str(r.range(1, 4))     # chan_set on a stack channel is refused at connect time
            cpudef = str(r.range(1, 9)) if r.chance(1, 4) else "N"
            self.specs.append((stack, dup, mode, flags, init, cpudef))
        self.state = [None] * self.T
        self.tid = [None] * self.T
        self.aff = [None] * self.T
        self.raw = {}
        for t in range(self.T):
            for k in range(self.K):
                st, _, _, _, init, _ = self.specs[k]
                self.raw[(t, k)] = [] if st else (None if init == "N" else int(init))
        self.cpu = [[None] * 5 for _ in range(self.C)]
        self.batches = []
        self.classes = []

    # ---- single writes (return token; update the picture)
    def w_state(self, t, dupok=False):
        cur = self.state[t]
        cand = [s for s in STATES if s != cur] if not dupok else [cur if cur is not None else 1]
        if self.r.chance(1, 25):
            cand = [0, 6, 7]                      # Unknown / out of the enum: selects nothing
        v = self.r.choice(cand)
        self.state[t] = v
        return "s%d=%d" % (t, v)

    def w_raw(self, t, k, bad=False):
        stack, dup, _, flags, _, _ = self.specs[k]
        lo = 0 if (self.r.chance(1, 40) or flags & 8) else 1
        if stack:
            stk = self.raw[(t, k)]
            if stk and (self.r.chance(1, 2) or len(stk) > 3):
                v = stk[-1]
                if bad:
                    return "r%d.%d-%d" % (t, k, v + 1)
                stk.pop()
                return "r%d.%d-%d" % (t, k, v)
            top = stk[-1] if stk else None
            v = self.r.range(lo, 5)
            if bad or (dup and self.r.chance(1, 3)):
                if top is not None:
                    v = top
            elif v == top:
                v = v + 1
            stk.append(v)
            return "r%d.%d+%d" % (t, k, v)
        cur = self.raw[(t, k)]
        if self.r.chance(1, 8):
            v = None
        else:
            v = self.r.range(lo, 5)
        if bad or (dup and self.r.chance(1, 3)):
            v = cur
        elif v == cur:
            v = (cur or 0) + 1
        self.raw[(t, k)] = v
        return "r%d.%d=%s" % (t, k, "N" if v is None else str(v))

    def w_thrun(self, c, target=None, bad=False):
        cur = self.cpu[c][3]
        if bad:
            v = self.r.choice([-1, self.T, self.T + 3])
        elif target is not None:
            v = target
        else:
            cand = [x for x in list(range(self.T)) + [None] if x != cur]
            v = self.r.choice(cand) if cand and not self.r.chance(1, 6) else cur   # IGNORE_DUP: a repeated value is dropped
        self.cpu[c][3] = v
        return "c%d.3=%s" % (c, "N" if v is None else str(v))

    def w_cpusys(self, c):
        w = self.r.choice([0, 1, 2, 4])
        v = self.r.choice([None, 1, 2, self.cpu[c][w]])
        if w == 0:
            v = self.r.range(0, 2)
        self.cpu[c][w] = v
        return "c%d.%d=%s" % (c, w, "N" if v is None else str(v))

    def w_tid(self, t):
        v = self.r.choice([None, 100 + t, self.tid[t]])
        self.tid[t] = v
        return "i%d=%s" % (t, "N" if v is None else str(v))

    def w_aff(self, t):
        cand = [x for x in list(range(self.C)) + [None] if x != self.aff[t]]
        v = self.r.choice(cand)
        self.aff[t] = v
        return "a%d=%s" % (t, "N" if v is None else str(v))

    # ---- batches aimed at the proof's case splits
    def batch(self):
        r = self.r
        kind = r.choice(["state", "raw", "state+raw", "raw+state", "thrun", "thrun+raw", "raw+thrun", "event", "event",
                         "shared", "unselected", "misc", "empty"])
        if r.chance(1, 40):
            kind = "bad"
        ws = []
        t = r.below(self.T)
        k = r.below(self.K)
        c = r.below(self.C)
        if kind == "state":
            ws = [self.w_state(t)]
        elif kind == "raw":
            ws = [self.w_raw(t, k)]
        elif kind == "state+raw":
            ws = [self.w_state(t), self.w_raw(t, k)]
        elif kind == "raw+state":
            ws = [self.w_raw(t, k), self.w_state(t)]
        elif kind == "thrun":
            ws = [self.w_thrun(c)]
        elif kind == "thrun+raw":
            # the CPU switches to a thread whose input is also dirty (and the previous one's, too)
            old = self.cpu[c][3]
            ws = [self.w_thrun(c, target=t)] + [self.w_raw(t, k)]
            if old is not None and old != t and 0 <= old < self.T and r.chance(1, 2):
                ws.append(self.w_raw(old, k))
        elif kind == "raw+thrun":
            old = self.cpu[c][3]
            ws = [self.w_raw(t, k)]
            if old is not None and old != t and 0 <= old < self.T and r.chance(1, 2):
                ws.append(self.w_raw(old, k))
            ws.append(self.w_thrun(c, target=r.choice([t, None])))
        elif kind == "event":
            # what one emulator event does: state + tid + the CPU's channels + maybe affinity, and a model channel
            ws = [self.w_state(t), self.w_tid(t)]
            ws += ["c%d.2=%s" % (c, r.choice(["N", str(100 + t)])), self.w_thrun(c, target=r.choice([t, None])),
                   "c%d.0=%d" % (c, r.range(0, 2))]
            if r.chance(1, 2):
                ws.append(self.w_aff(t))
            if r.chance(1, 2):
                ws.insert(r.below(len(ws) + 1), self.w_raw(t, k))
        elif kind == "shared":
            # several CPUs select the same thread, then its channels change: order of the cb_input's on one channel
            cs = list(range(self.C))
            r.shuffle(cs)
            ws = [self.w_thrun(cc, target=t) for cc in cs if self.cpu[cc][3] != t]
            ws += [self.w_raw(t, kk) for kk in range(self.K) if r.chance(2, 3)]
        elif kind == "unselected":
            # write inputs of threads that no mux selects at the moment
            for tt in range(self.T):
                if self.state[tt] != 1 and r.chance(2, 3):
                    ws.append(self.w_raw(tt, k))
            if not ws:
                ws = [self.w_raw(t, k)]
        elif kind == "misc":
            ws = [self.w_cpusys(c), self.w_tid(t), self.w_aff(t)]
            r.shuffle(ws)
        elif kind == "empty":
            ws = []
        elif kind == "bad":
            sub = r.choice(["twice", "dupstate", "oob", "badpop", "dupraw", "twice-dw"])
            kind = "bad:" + sub
            if sub == "twice":
                ws = [self.w_raw(t, k), self.w_raw(t, k)]
            elif sub == "dupstate":
                ws = [self.w_state(t, dupok=True)] if self.state[t] is not None else [self.w_state(t), self.w_state(t)]
            elif sub == "oob":
                ws = [self.w_thrun(c, bad=True)]
            elif sub == "badpop":
                ws = [self.w_raw(t, k, bad=True)]
            elif sub == "dupraw":
                ws = [self.w_raw(t, k, bad=True)]
            else:
                ws = [self.w_state(t), self.w_tid(t), self.w_tid(t)]
        self.classes.append(kind)
        return " ".join(ws) if ws else "-"

    def script(self):
        n = self.r.range(3, 14)
        bs = [self.batch() for _ in range(n)]
        head = "B %d %d %d" % (self.T, self.C, self.K)
        specs = ";".join("%d %d %d %d %s %s" % s for s in self.specs)
        return head + " | " + specs + " | " + " ; ".join(bs)


def build_harness(build):
    hdir = os.path.join(common.BUILD, "harness")
    src = os.path.join(common.VERIF, "harness", "bay_h.c")
    sig = hashlib.sha256(open(src, "rb").read()).hexdigest()[:12]
    hx = os.path.join(hdir, "bay_h-%s-%s" % (build.tree, sig))
    if not os.path.exists(hx):
        if os.path.isdir(hdir):
            for f in os.listdir(hdir):
                if f.startswith("bay_h-"):
                    os.remove(os.path.join(hdir, f))
        common.cc_harness(hx, [src], build, extra=build.libs_emu + ["-lm"])
    return hx


def check_bay(chk, build, nscripts):
    """returns the list of disagreements (script, impl line, model line)"""
    hx = build_harness(build)
    oracle = common.build_oracle("bay", "Extract_bay", "bay_drv.ml", "bay_x")
    lines = []
    gens = []
    for i in range(nscripts):
        g = Gen(chk.rng.fork("bay%d" % i), chk)
        lines.append(g.script())
        gens.append(g)
    impl = common.batch(hx, lines, timeout=900)
    modl = common.batch(oracle, lines, timeout=900)
    bad = []
    nseg = nerr = 0
    for ln, g, a, b in zip(lines, gens, impl, modl):
        chk.case("bay:" + hashlib.sha256(ln.encode()).hexdigest()[:16])
        segs = a.split(" | ")
        nseg += len(segs)
        ended_err = segs[-1] == "err"
        nerr += 1 if ended_err else 0
        for i, kind in enumerate(g.classes):
            if i + 1 < len(segs):
                chk.count("bay-batch:" + kind + (":refused" if segs[i + 1] == "err" else ""))
        if a != b or a.startswith("bad"):
            sa, sb = a.split(" | "), b.split(" | ")
            at = next((j for j in range(min(len(sa), len(sb))) if sa[j] != sb[j]), min(len(sa), len(sb)))
            bad.append({"script": ln, "first_differing_segment": at,
                        "impl": sa[at] if at < len(sa) else None, "model": sb[at] if at < len(sb) else None})
    chk.count("bay-scripts", len(lines))
    chk.count("bay-propagates-compared", nseg)
    chk.count("bay-scripts-ending-refused", nerr)
    if lines:
        chk.sample({"bay_script": lines[0], "real": impl[0][:600], "model": modl[0][:600]})
    return bad
