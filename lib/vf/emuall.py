"""Whole-emulator tie: a trace DIRECTORY (as written by Scenario.write / the real runtime) is turned into the input of
the extracted composition EmuAllDefs.ovniemu_model (oracle/emuall_drv.ml) - for every stream its relative path, the bytes
of stream.obs and the content of stream.json in the abstract forms the Coq models read - and the model's verdict and six
files are compared with what the real ovniemu makes of the same directory."""
import json
import os
import struct

from . import common, emucore, trace


def _hex(b):
    if isinstance(b, str):
        b = b.encode("latin1")
    return b.hex()


def _jval(d, dotted):
    cur = d
    for part in dotted.split("."):
        if not isinstance(cur, dict) or part not in cur:
            return "-"
        cur = cur[part]
    if isinstance(cur, bool) or cur is None or isinstance(cur, list):
        return "x"
    if isinstance(cur, (int, float)):
        return "n%d" % int(cur)
    if isinstance(cur, str):
        return "s" + _hex(cur)
    if isinstance(cur, dict):
        return "o"
    return "x"


def _json_tokens(v, out):
    if v is None:
        out.append("N")
    elif v is True:
        out.append("T")
    elif v is False:
        out.append("F")
    elif isinstance(v, (int, float)):
        out.append("I%d" % int(v))
    elif isinstance(v, str):
        out.append("S" + _hex(v))
    elif isinstance(v, list):
        out.append("A%d" % len(v))
        for x in v:
            _json_tokens(x, out)
    elif isinstance(v, dict):
        out.append("O%d" % len(v))
        for k, x in v.items():
            out.append("K" + _hex(k))
            _json_tokens(x, out)
    return out


def trace_lines(root, lint=False, all_models=False, gids=None):
    """the driver input for the trace directory root (None when a stream.json is not something the abstraction covers)"""
    lines = ["TRACE %d %d" % (1 if lint else 0, 1 if all_models else 0)]
    p = os.path.join(root, "clock-offsets.txt")
    lines.append("CLK " + (open(p, "rb").read().hex() or "-" if os.path.exists(p) else "-"))
    streams = []
    for d, dn, fn in os.walk(root):
        if "stream.json" in fn and "stream.obs" in fn:
            streams.append(d)
    labels = set()
    body = []
    for d in streams:
        rel = os.path.relpath(d, root)
        obs = open(os.path.join(d, "stream.obs"), "rb").read()
        try:
            meta = json.load(open(os.path.join(d, "stream.json")))
        except ValueError:
            return None
        if not isinstance(meta, dict):
            return None
        body.append("S %s %s" % (_hex(rel), obs.hex() or "-"))
        body.append("m 1 1 " + " ".join(_jval(meta, k) for k in (
            "version", "ovni.part", "ovni.loom", "ovni.pid", "ovni.tid", "ovni.app_id", "ovni.finished", "ovni.require",
            "ovni.lib.version", "ovni.lib.commit")))
        o = meta.get("ovni", {}) if isinstance(meta.get("ovni", {}), dict) else {}

        def num(k):
            return "%d" % int(o[k]) if isinstance(o.get(k), (int, float)) and not isinstance(o.get(k), bool) else "-"
        cpus = o.get("loom_cpus")
        if cpus is None:
            cs = "-"
        elif cpus == []:
            cs = "e"
        else:
            cs = ",".join("%d:%d" % (int(c["index"]), int(c["phyid"])) for c in cpus)
        loom = o.get("loom", "")
        body.append("s %s %s %s %s %s %s %s" % (_hex(loom) or "-", num("pid") if num("pid") != "-" else "0", num("tid") if num("tid") != "-" else "0",
                                                num("app_id"), num("rank"), num("nranks"), cs))
        req = o.get("require")
        if not isinstance(req, dict):
            body.append("q -")
        else:
            ents = ["%s=%s" % (_hex(k), _hex(v)) for k, v in req.items() if isinstance(v, str)]
            body.append("q " + (",".join(ents) if ents else "e"))
        body.append("j " + " ".join(_json_tokens(meta, [])))
        # task-type labels of the jumbo type-creation events (VYc / 6Yc): their gid comes from the real hash
        ok, evs, why = trace.parse_obs(obs)
        for e in evs:
            if e["jumbo"] is not None and e["mcv"] in ("VYc", "6Yc") and len(e["jumbo"]) >= 4:
                typeid = struct.unpack("<I", bytes(e["jumbo"][:4]))[0]
                lab = bytes(e["jumbo"][4:]).split(b"\0")[0].decode("latin1")
                labels.add(emucore.task_label(typeid, lab))
    for lab in sorted(labels):
        lines.append("GID %s %d" % (_hex(lab) or "-", (gids or {}).get(lab, 0)))
    return lines + body + ["END"]


def run_model(oracle, inputs):
    """inputs: list of line lists -> list of ('refused', tag, {}) | ('ok', '', {name: bytes})"""
    lines = []
    for l in inputs:
        lines += l
    rc, out, err = common.run([oracle], input="\n".join(lines) + "\n", timeout=900)
    res = []
    cur = None
    for ln in out.split("\n"):
        if ln.startswith("refused"):
            cur = ("refused", ln.split()[1], {})
        elif ln == "ok":
            cur = ("ok", "", {})
        elif ln.startswith("FILE "):
            _, name, hx = ln.split()
            cur[2][name] = b"" if hx == "-" else bytes.fromhex(hx)
        elif ln == "done":
            res.append(cur)
            cur = None
    if len(res) != len(inputs):
        raise RuntimeError("emuall oracle answered %d of %d traces: %s" % (len(res), len(inputs), err[-400:]))
    return res
