"""End-to-end differential harness for the emulator-core model (C04-C08, C13, C17):
a Scenario is written as a real trace, run through the real ovniemu, and given to the
extracted Coq model; both sides are reduced to {(file,row,type): [(time,value)...]}."""
import json
import os
import shutil
import struct

from . import common, trace

MODEL_IDS = {"ovni": "O", "nanos6": "6", "nosv": "V", "nodes": "D", "tampi": "T", "mpi": "M", "kernel": "K", "openmp": "P"}


def load_tables():
    return json.load(open(os.path.join(common.BUILD, "tables.json")))


class Scenario:
    def __init__(self):
        self.looms = {}        # name -> list of (index, phyid)
        self.threads = []      # dict(loom, pid, tid)
        self.enabled = ["ovni"]
        self.versions = {}     # model -> version string (from tables)
        self.events = []       # (thread position, clock, mcv str, payload bytes)
        self.lint = False
        self.extra_meta = {}   # thread position -> dict of dotted keys

    # ---- ordering rules of system.c
    def loom_order(self):
        return sorted(self.looms)

    def thread_gindex(self):
        """thread position -> gindex"""
        order = sorted(range(len(self.threads)),
                       key=lambda i: (self.loom_order().index(self.threads[i]["loom"]), self.threads[i]["pid"], self.threads[i]["tid"]))
        return {pos: g for g, pos in enumerate(order)}

    def cpu_table(self):
        """list of (loom position, loom-local index or -1, virtual) in gindex order"""
        res = []
        for li, name in enumerate(self.loom_order()):
            for (idx, phy) in sorted(self.looms[name], key=lambda x: x[1]):
                res.append((li, idx, False))
            res.append((li, -1, True))
        return res

    # ---- real trace
    def write(self, root):
        tr = trace.Trace()
        first_in_loom = {}
        req = {}
        for m in self.enabled:
            req[m] = self.versions[m]
        for pos, t in enumerate(self.threads):
            cpus = None
            if t["loom"] not in first_in_loom:
                first_in_loom[t["loom"]] = pos
                cpus = self.looms[t["loom"]]
            meta = trace.thread_meta(t["tid"], t["pid"], t["loom"], app_id=t.get("app", 1), require=req, cpus=cpus,
                                     extra=self.extra_meta.get(pos))
            evs = [trace.ev_bytes(mcv, clk, payload) for (p, clk, mcv, payload) in self.events if p == pos]
            tr.add_thread(t["loom"], t["pid"], t["tid"], meta, evs)
        tr.write(root)

    # ---- oracle text
    def oracle_text(self):
        g = self.thread_gindex()
        inv = {v: k for k, v in g.items()}
        lo = self.loom_order()
        out = []
        for gi in range(len(self.threads)):
            t = self.threads[inv[gi]]
            out.append("T %d %d %d" % (t["tid"], t["pid"], lo.index(t["loom"])))
        for (li, idx, virt) in self.cpu_table():
            out.append("C %d %d %d" % (1 if virt else 0, li, idx))
        out.append("L %d" % (1 if self.lint else 0))
        out.append("M " + " ".join(str(ord(MODEL_IDS[m])) for m in self.enabled))
        # events in the merged order the emulator uses: by clock, ties by stream order (relpath) - the generator
        # keeps clocks of different threads distinct, so plain sort by clock is exact
        for (p, clk, mcv, payload) in sorted(self.events, key=lambda e: e[1]):
            out.append("R %d %d %d %d %d %s" % (clk, g[p], ord(mcv[0]), ord(mcv[1]), ord(mcv[2]), payload.hex() if payload else "-"))
        out.append("end")
        return out

    def describe(self):
        return {"looms": self.looms, "threads": self.threads, "enabled": self.enabled, "lint": self.lint,
                "events": [(p, c, m, pl.hex()) for (p, c, m, pl) in self.events]}


def i32(x):
    return struct.pack("<i", x)


def run_oracle(oracle, scenarios):
    """-> list of ('err', code) | ('ok', rows dict)"""
    lines = []
    for s in scenarios:
        lines += s.oracle_text()
    rc, out, err = common.run([oracle], input="\n".join(lines) + "\n", timeout=900)
    res = []
    cur = None
    first_time = {}
    for ln in out.split("\n"):
        if ln.startswith("err"):
            cur = ("err", int(ln.split()[1]))
        elif ln == "ok":
            cur = ("ok", {})
        elif ln.startswith("P "):
            _, cpu, row, ty, tm, val = ln.split()
            cur[1].setdefault((int(cpu), int(row) + 1, int(ty)), []).append((int(tm), int(val)))
        elif ln == "done":
            res.append(cur)
            cur = None
    if len(res) != len(scenarios):
        raise RuntimeError("oracle answered %d of %d scenarios: %s" % (len(res), len(scenarios), err[-400:]))
    return res


def run_real(build, scenarios, workers=None, keep_files=False, extra_args=()):
    """-> list of dict(rc, stderr, rows or None, first_clock)"""
    wd = trace.workdir()
    try:
        def one(ix):
            s = scenarios[ix]
            d = os.path.join(wd, "s%d" % ix)
            s.write(d)
            args = (["-l"] if s.lint else []) + list(extra_args)
            rc, o, e = trace.run_tool(build, "ovniemu", args, d)
            rows = None
            files = {}
            if rc == 0:
                rows = {}
                for cpu, name in ((0, "thread.prv"), (1, "cpu.prv")):
                    p = os.path.join(d, name)
                    if os.path.exists(p):
                        hdr, recs = trace.parse_prv(p)
                        for (t, row, ty, v) in recs:
                            rows.setdefault((cpu, row, ty), []).append((t, v))
                if keep_files:
                    for name in os.listdir(d):
                        p = os.path.join(d, name)
                        if os.path.isfile(p):
                            files[name] = open(p, errors="replace").read()
            shutil.rmtree(d, ignore_errors=True)
            return {"rc": rc, "stderr": e, "rows": rows, "files": files}
        return trace.pmap(one, range(len(scenarios)), workers)
    finally:
        shutil.rmtree(wd, ignore_errors=True)


def shift_rows(rows, t0):
    """model rows carry absolute clocks; the emulator prints clock - first clock"""
    return {k: [(t - t0, v) for (t, v) in seq] for k, seq in rows.items()}


def compare(s, real, model, types=None):
    """-> None if they agree, else a short description. types: restrict to these PRV types."""
    if model[0] == "err":
        if real["rc"] == 0:
            return "model rejects (code %d), ovniemu accepts" % model[1]
        return None
    if real["rc"] != 0:
        return "model accepts, ovniemu exits %s: %s" % (real["rc"], _first_error(real["stderr"]))
    t0 = min(e[1] for e in s.events) if s.events else 0
    mr = shift_rows(model[1], t0)
    rr = real["rows"]
    keys = set(mr) | set(rr)
    for k in sorted(keys):
        if types is not None and k[2] not in types:
            continue
        if mr.get(k, []) != rr.get(k, []):
            return "rows differ at (file=%s,row=%d,type=%d): model %s, ovniemu %s" % (
                "cpu" if k[0] else "thread", k[1], k[2], mr.get(k, [])[:12], rr.get(k, [])[:12])
    return None


def _first_error(stderr):
    for ln in stderr.split("\n"):
        if "ERROR" in ln:
            return ln[:200]
    return stderr[-200:]


def timeline(seq, t):
    """value shown at time t by a (time,value) sequence: last record with time <= t (0 = nothing)"""
    v = 0
    for (tm, val) in seq:
        if tm <= t:
            v = val
        else:
            break
    return v
