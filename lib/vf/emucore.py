"""End-to-end differential harness for the emulator-core model (C04-C08, C13, C17):
a Scenario is written as a real trace, run through the real ovniemu, and given to the
extracted Coq model; both sides are reduced to {(file,row,type): [(time,value)...]}."""
import json
import os
import shutil
import struct

from . import common, trace

MODEL_IDS = {"ovni": "O", "nanos6": "6", "nosv": "V", "nodes": "D", "tampi": "T", "mpi": "M", "kernel": "K", "openmp": "P"}


def load_tables():
    return json.load(open(os.path.join(common.BUILD, "tables.json")))


class Jumbo(bytes):
    """payload of a jumbo event (the data that follows the 4-byte size)"""


_GID_CACHE = {}


def gids(build, labels):
    """label -> gid computed by the real task_get_type_gid (harness/gid.c)"""
    need = [l for l in labels if l not in _GID_CACHE]
    if need:
        exe = os.path.join(common.BUILD, "harness", "gid-" + build.tree)
        if not os.path.exists(exe):
            common.cc_harness(exe, [os.path.join(common.VERIF, "harness", "gid.c")], build, extra=build.libs_emu)
        out = common.batch(exe, [l.encode("latin1").hex() or "" for l in need])
        for l, o in zip(need, out):
            _GID_CACHE[l] = int(o)
    return {l: _GID_CACHE[l] for l in labels}


def task_label(typeid, label):
    return label if label else "(unlabeled task type %d)" % typeid


class Scenario:
    def __init__(self):
        self.looms = {}        # name -> list of (index, phyid)
        self.threads = []      # dict(loom, pid, tid)
        self.enabled = ["ovni"]
        self.versions = {}     # model -> version string (from tables)
        self.events = []       # (thread position, clock, mcv str, payload bytes)
        self.lint = False
        self.extra_meta = {}   # thread position -> dict of dotted keys
        self.gid = {}          # task type label -> gid (from the real task_get_type_gid)
        self.marks = {}        # thread position -> list of dict(type, stack, title, labels=[(value,label)...]) in definition order

    # ---- ordering rules of system.c
    def _loom_ranks(self):
        """loom -> sorted ranks of its processes (empty when the loom has no rank information)"""
        res = {}
        for t in self.threads:
            res.setdefault(t["loom"], set())
            if t.get("rank") is not None:
                res[t["loom"]].add(t["rank"])
        return res

    def loom_order(self):
        # a loom exists in the trace only through its threads; looms are ordered by their lowest rank when every
        # loom has rank information, by name otherwise (system.c set_sort_criteria / sort_lpt)
        lr = self._loom_ranks()
        used = [l for l in self.looms if l in lr]
        if used and all(lr[l] for l in used):
            return sorted(used, key=lambda l: (min(lr[l]), l))
        return sorted(used)

    def thread_gindex(self):
        """thread position -> gindex: looms in loom order, processes by rank (when the loom has ranks) or pid, threads by tid"""
        lo = self.loom_order()
        lr = self._loom_ranks()

        def pkey(t):
            return t["rank"] if (lr.get(t["loom"]) and t.get("rank") is not None) else t["pid"]
        order = sorted(range(len(self.threads)),
                       key=lambda i: (lo.index(self.threads[i]["loom"]), pkey(self.threads[i]), self.threads[i]["tid"]))
        return {pos: g for g, pos in enumerate(order)}

    def cpu_table(self):
        """list of (loom position, loom-local index or -1, virtual) in gindex order"""
        res = []
        for li, name in enumerate(self.loom_order()):
            for (idx, phy) in sorted(self.looms[name], key=lambda x: x[1]):
                res.append((li, idx, False))
            res.append((li, -1, True))
        return res

    # ---- real trace
    def write(self, root):
        tr = trace.Trace()
        first_in_loom = {}
        req = {}
        for m in self.enabled:
            req[m] = self.versions[m]
        for pos, t in enumerate(self.threads):
            cpus = None
            if t["loom"] not in first_in_loom:
                first_in_loom[t["loom"]] = pos
                cpus = self.looms[t["loom"]]
            meta = trace.thread_meta(t["tid"], t["pid"], t["loom"], app_id=t.get("app", 1), require=req, cpus=cpus,
                                     rank=t.get("rank"), nranks=t.get("nranks"), extra=self.extra_meta.get(pos))
            if self.marks.get(pos):
                mk = {}
                for d in self.marks[pos]:
                    e = {"title": d["title"], "chan_type": "stack" if d["stack"] else "single"}
                    if d.get("labels"):
                        e["labels"] = {str(v): l for (v, l) in d["labels"]}
                    mk[str(d["type"])] = e
                meta["ovni"]["mark"] = mk
            evs = [trace.ev_bytes(mcv, clk, jumbo=bytes(payload)) if isinstance(payload, Jumbo) else trace.ev_bytes(mcv, clk, payload)
                   for (p, clk, mcv, payload) in self.events if p == pos]
            tr.add_thread(t["loom"], t["pid"], t["tid"], meta, evs)
        tr.write(root)

    # ---- oracle text
    def oracle_text(self):
        g = self.thread_gindex()
        inv = {v: k for k, v in g.items()}
        lo = self.loom_order()
        out = []
        for gi in range(len(self.threads)):
            t = self.threads[inv[gi]]
            out.append("T %d %d %d %d %d" % (t["tid"], t["pid"], lo.index(t["loom"]), t.get("app", 1),
                                             t["rank"] if t.get("rank") is not None else -1))
        for (li, idx, virt) in self.cpu_table():
            out.append("C %d %d %d" % (1 if virt else 0, li, idx))
        for gi in range(len(self.threads)):
            for d in self.marks.get(inv[gi], []):
                labs = ",".join("%d:%s" % (v, l.encode("latin1").hex() or "-") for (v, l) in d.get("labels", [])) or "-"
                out.append("K %d %d %d %s %s" % (gi, d["type"], 1 if d["stack"] else 0, d["title"].encode("latin1").hex() or "-", labs))
        out.append("L %d" % (1 if self.lint else 0))
        out.append("M " + " ".join(str(ord(MODEL_IDS[m])) for m in self.enabled))
        # events in the merged order the emulator uses: by clock, ties by stream order (relpath) - the generator
        # keeps clocks of different threads distinct, so plain sort by clock is exact
        for (p, clk, mcv, payload) in sorted(self.events, key=lambda e: e[1]):
            if isinstance(payload, Jumbo):
                full = struct.pack("<I", len(payload)) + bytes(payload)
                typeid = struct.unpack("<I", bytes(payload[:4]).ljust(4, b"\0"))[0]
                label = bytes(payload[4:]).split(b"\0")[0].decode("latin1")
                aux = self.gid.get(task_label(typeid, label), 0)
                out.append("R %d %d %d %d %d %s 1 %d" % (clk, g[p], ord(mcv[0]), ord(mcv[1]), ord(mcv[2]), full.hex(), aux))
            else:
                out.append("R %d %d %d %d %d %s" % (clk, g[p], ord(mcv[0]), ord(mcv[1]), ord(mcv[2]), payload.hex() if payload else "-"))
        out.append("end")
        return out

    def describe(self):
        return {"looms": self.looms, "threads": self.threads, "enabled": self.enabled, "lint": self.lint,
                "events": [(p, c, m, ("J:" if isinstance(pl, Jumbo) else "") + pl.hex()) for (p, c, m, pl) in self.events]}


def scenario_from_dir(root, tables):
    """reads a trace directory written by the real runtime back into a Scenario (events, metadata, marks)"""
    s = Scenario()
    for m in tables["models"]:
        s.versions[m["name"]] = m["version"]
    found = []
    for d, dn, fn in os.walk(root):
        if "stream.json" in fn and "stream.obs" in fn:
            found.append(d)
    found.sort()
    enabled = set()
    for d in found:
        meta = json.load(open(os.path.join(d, "stream.json")))
        o = meta["ovni"]
        loom = o["loom"]
        if "loom_cpus" in o:
            s.looms.setdefault(loom, [])
            for c in o["loom_cpus"]:
                if (c["index"], c["phyid"]) not in s.looms[loom]:
                    s.looms[loom].append((c["index"], c["phyid"]))
        else:
            s.looms.setdefault(loom, [])
        pos = len(s.threads)
        s.threads.append({"loom": loom, "pid": o["pid"], "tid": o["tid"], "app": o.get("app_id", 1), "rank": o.get("rank"), "nranks": o.get("nranks")})
        enabled |= set(o.get("require", {}))
        if "mark" in o:
            s.marks[pos] = [{"type": int(k), "stack": v.get("chan_type") == "stack", "title": v.get("title", ""),
                             "labels": [(int(a), b) for a, b in v.get("labels", {}).items()]} for k, v in o["mark"].items()]
        ok, evs, why = trace.parse_obs(open(os.path.join(d, "stream.obs"), "rb").read())
        for e in evs:
            pl = Jumbo(e["jumbo"]) if e["jumbo"] is not None else e["payload"]
            s.events.append((pos, e["clock"], e["mcv"], pl))
    s.enabled = [m["name"] for m in tables["models"] if m["name"] in enabled]
    return s


def i32(x):
    return struct.pack("<i", x)


def run_oracle(oracle, scenarios):
    """-> list of ('err', code) | ('ok', rows dict)"""
    lines = []
    for s in scenarios:
        lines += s.oracle_text()
    rc, out, err = common.run([oracle], input="\n".join(lines) + "\n", timeout=900)
    res = []
    cur = None
    first_time = {}
    for ln in out.split("\n"):
        if ln.startswith("err"):
            cur = ("err", int(ln.split()[1]))
        elif ln == "ok":
            cur = ("ok", {})
        elif ln.startswith("MT ") or ln.startswith("ML "):
            cur[1].setdefault("_marks", []).append(ln)
        elif ln.startswith("P "):
            _, cpu, row, ty, tm, val = ln.split()
            cur[1].setdefault((int(cpu), int(row) + 1, int(ty)), []).append((int(tm), int(val)))
        elif ln == "done":
            res.append(cur)
            cur = None
    if len(res) != len(scenarios):
        raise RuntimeError("oracle answered %d of %d scenarios: %s" % (len(res), len(scenarios), err[-400:]))
    return res


def run_real(build, scenarios, workers=None, keep_files=False, extra_args=()):
    """-> list of dict(rc, stderr, rows or None, first_clock)"""
    wd = trace.workdir()
    try:
        def one(ix):
            s = scenarios[ix]
            d = os.path.join(wd, "s%d" % ix)
            s.write(d)
            args = (["-l"] if s.lint else []) + list(extra_args)
            rc, o, e = trace.run_tool(build, "ovniemu", args, d)
            rows = None
            files = {}
            if rc == 0:
                rows = {}
                for cpu, name in ((0, "thread.prv"), (1, "cpu.prv")):
                    p = os.path.join(d, name)
                    if os.path.exists(p):
                        hdr, recs = trace.parse_prv(p)
                        for (t, row, ty, v) in recs:
                            rows.setdefault((cpu, row, ty), []).append((t, v))
                if keep_files:
                    for name in os.listdir(d):
                        p = os.path.join(d, name)
                        if os.path.isfile(p):
                            files[name] = open(p, errors="replace").read()
            shutil.rmtree(d, ignore_errors=True)
            return {"rc": rc, "stderr": e, "rows": rows, "files": files}
        return trace.pmap(one, range(len(scenarios)), workers)
    finally:
        shutil.rmtree(wd, ignore_errors=True)


def shift_rows(rows, t0):
    """model rows carry absolute clocks; the emulator prints clock - first clock"""
    return {k: [(t - t0, v) for (t, v) in seq] for k, seq in rows.items()}


def compare(s, real, model, types=None):
    """-> None if they agree, else a short description. types: restrict to these PRV types."""
    if model[0] == "err":
        if real["rc"] == 0:
            return "model rejects (code %d), ovniemu accepts" % model[1]
        return None
    if real["rc"] != 0:
        return "model accepts, ovniemu exits %s: %s" % (real["rc"], _first_error(real["stderr"]))
    t0 = min(e[1] for e in s.events) if s.events else 0
    mr = shift_rows({k: v for k, v in model[1].items() if k != "_marks"}, t0)
    rr = real["rows"]
    keys = set(mr) | set(rr)
    for k in sorted(keys):
        if types is not None and k[2] not in types:
            continue
        if mr.get(k, []) != rr.get(k, []):
            return "rows differ at (file=%s,row=%d,type=%d): model %s, ovniemu %s" % (
                "cpu" if k[0] else "thread", k[1], k[2], mr.get(k, [])[:12], rr.get(k, [])[:12])
    return None


def _first_error(stderr):
    for ln in stderr.split("\n"):
        if "ERROR" in ln:
            return ln[:200]
    return stderr[-200:]


def timeline(seq, t):
    """value shown at time t by a (time,value) sequence: last record with time <= t (0 = nothing)"""
    v = 0
    for (tm, val) in seq:
        if tm <= t:
            v = val
        else:
            break
    return v


# ---------------------------------------------------------------- independent deciders (no Coq model involved)

FSM = {("Unknown", "x"): "Running", ("Dead", "x"): "Running", ("Running", "c"): "Cooling", ("Running", "p"): "Paused",
       ("Cooling", "p"): "Paused", ("Paused", "w"): "Warming", ("Paused", "r"): "Running", ("Warming", "r"): "Running",
       ("Running", "e"): "Dead", ("Cooling", "e"): "Dead"}
CODE = {"Unknown": 0, "Running": 1, "Paused": 2, "Dead": 3, "Cooling": 4, "Warming": 5}


def py_spec(s):
    """The documented thread machine + CPU occupancy, replayed on the OH*/OA* events of a scenario.
    Returns (accepted, history) ; history = list of (clock, {thread pos: (state, cpu gindex or None)}) after each accepted event."""
    import struct as _st
    g = s.thread_gindex()
    cpus = s.cpu_table()
    lo = s.loom_order()

    def find_cpu(loompos, idx):
        for gi, (li, ix, virt) in enumerate(cpus):
            if li == loompos and ix == idx:
                return gi
        return None

    st = {p: ("Unknown", None) for p in range(len(s.threads))}
    undecided = False
    hist = []

    def oversub(stt):
        for gi, (li, ix, virt) in enumerate(cpus):
            if virt:
                continue
            if sum(1 for p, (a, c) in stt.items() if a == "Running" and c == gi) > 1:
                return True
        return False

    for (p, clk, mcv, pl) in sorted(s.events, key=lambda e: e[1]):
        loompos = lo.index(s.threads[p]["loom"])
        cur, cpu = st[p]
        new = dict(st)
        if mcv[:2] == "OH" and mcv[2] in "xeprcw":
            nxt = FSM.get((cur, mcv[2]))
            if nxt is None:
                return False, hist
            if mcv[2] == "x":
                if len(pl) < 4:
                    return False, hist
                c = find_cpu(loompos, _st.unpack("<i", pl[:4])[0])
                if c is None:
                    return False, hist
                new[p] = (nxt, c)
            elif mcv[2] == "e":
                new[p] = (nxt, None)
            else:
                new[p] = (nxt, cpu)
        elif mcv == "OAs":
            if cpu is None or cur not in ("Running", "Cooling", "Warming") or len(pl) != 4:
                return False, hist
            c = find_cpu(loompos, _st.unpack("<i", pl)[0])
            if c is None:
                return False, hist
            new[p] = (cur, c)
        elif mcv == "OAr":
            if len(pl) != 8:
                return False, hist
            idx, tid = _st.unpack("<ii", pl)
            cands = [q for q in range(len(s.threads)) if s.threads[q]["loom"] == s.threads[p]["loom"] and s.threads[q]["tid"] == tid]
            same = [q for q in cands if s.threads[q]["pid"] == s.threads[p]["pid"]]
            q = (same or cands or [None])[0]
            if q is None:
                return False, hist
            rs, rc = st[q]
            c = find_cpu(loompos, idx)
            if rs in ("Dead", "Unknown") or rc is None or c is None:
                return False, hist
            if c == rc:
                # the documentation does not say whether moving a thread to the CPU it is on is an error (the
                # emulator refuses it): no verdict, but IF the trace is accepted nothing may have moved
                undecided = True
            new[q] = (rs, c)
        else:
            continue
        if oversub(new):
            return False, hist
        st = new
        hist.append((clk, dict(st)))
    if any(a != "Dead" for (a, c) in st.values()):
        return False, hist
    return (None if undecided else True), hist


def decide_thread_rows(s, real_rows, hist):
    """C04 timeline on the REAL output: rows 4/2/6 of thread.prv must show the machine's state, the TID while
    active, the bound CPU, at every event instant. Returns None or a description."""
    if not s.events:
        return None
    g = s.thread_gindex()
    t0 = min(e[1] for e in s.events)
    for (clk, stt) in hist:
        t = clk - t0
        for p, (a, c) in stt.items():
            row = g[p] + 1
            exp = {4: CODE[a], 2: s.threads[p]["tid"] if a in ("Running", "Cooling", "Warming") else 0, 6: (c + 1) if c is not None else 0}
            for ty, want in exp.items():
                got = timeline(real_rows.get((0, row, ty), []), t)
                if got != want:
                    return "thread row %d type %d shows %d at t=%d, the state machine says %d (%s)" % (row, ty, got, t, want, a)
    return None


def decide_cpu_rows(s, real_rows, hist):
    """C05 on the REAL output: cpu.prv types 3/2/1 = number of running threads bound to the CPU and TID/PID of the unique one."""
    if not s.events:
        return None
    t0 = min(e[1] for e in s.events)
    ncpu = len(s.cpu_table())
    touched = set()
    for (clk, stt) in hist:
        t = clk - t0
        for c in range(ncpu):
            run = [p for p, (a, cc) in stt.items() if a == "Running" and cc == c]
            row = c + 1
            got3 = timeline(real_rows.get((1, row, 3), []), t)
            if got3 != len(run):
                return "cpu row %d shows %d running threads at t=%d, %d are bound and running" % (row, got3, t, len(run))
            want2 = s.threads[run[0]]["tid"] if len(run) == 1 else 0
            want1 = s.threads[run[0]]["pid"] if len(run) == 1 else 0
            for ty, want in ((2, want2), (1, want1)):
                got = timeline(real_rows.get((1, row, ty), []), t)
                if got != want:
                    return "cpu row %d type %d shows %d at t=%d, expected %d" % (row, ty, got, t, want)
        if not s.cpu_table()[0][2]:
            pass
    return None


def decide_views(s, real_rows, hist, tables):
    """C06 on the REAL output, using only the thread/affinity machine and cross-consistency of the two PRV files:
    (a) a thread row of a tracked type is empty whenever the thread's state does not satisfy the tracking mode;
    (b) a CPU row shows the thread row's value of its unique running thread, and no thread's value otherwise
        (0 or the idle default)."""
    if not s.events:
        return None
    g = s.thread_gindex()
    t0 = min(e[1] for e in s.events)
    specs = [c for c in tables["chans"] if c["side"] == "th" and _model_name(tables, c["model"]) in s.enabled]
    ncpu = len(s.cpu_table())
    times = sorted(set(e[1] - t0 for e in s.events))
    states = {}
    hi = 0
    cur = {p: ("Unknown", None) for p in range(len(s.threads))}
    # (c) an independent tracker of the table-driven channels (push/pop/set by the dumped tables, flush, kernel
    #     in/out of CPU, the initial "progressing" of the idle channels): what each channel holds after each event
    id2dir = {chr(m["id"]): m["dir"] for m in tables["models"]}
    tab = {(x["model"], chr(x["c"]), chr(x["v"])): x for x in tables["table"]}
    consts = {(c["model"], c["name"]): c["value"] for c in tables.get("consts", [])}
    spec_of = {(c["model"], c["index"]): c for c in specs}
    chanval = {}     # (thread pos, model dir, chan index) -> list (stack) or [value] (single); missing = nothing written
    for pp in range(len(s.threads)):
        for d in ("nosv", "nanos6"):
            if (d, consts.get((d, "CH_IDLE"))) in spec_of:
                chanval[(pp, d, consts[(d, "CH_IDLE")])] = [consts[(d, "ST_PROGRESSING")]]
    evs = sorted(s.events, key=lambda e: e[1])
    ei = 0
    tracked_ok = True

    def apply_event(e):
        (pp, clk, mcv, pl) = e
        d = id2dir.get(mcv[0])
        if mcv in ("OF[", "OF]"):
            chanval[(pp, "ovni", consts.get(("ovni", "CH_FLUSH"), 0))] = [consts.get(("ovni", "ST_FLUSHING"), 1)] if mcv == "OF[" else []
            return
        if mcv in ("KCO", "KCI") and ("kernel", consts.get(("kernel", "CH_CS"), 0)) in spec_of:
            st = chanval.setdefault((pp, "kernel", consts[("kernel", "CH_CS")]), [])
            if mcv == "KCO":
                st.append(consts[("kernel", "ST_CSOUT")])
            elif st:
                st.pop()
            return
        x = tab.get((d, mcv[1], mcv[2]))
        if x is None or (d, x["chan"]) not in spec_of:
            return
        sp_ = spec_of[(d, x["chan"])]
        st = chanval.setdefault((pp, d, x["chan"]), [])
        if x["action"] == "PUSH":
            st.append(x["value"])
        elif x["action"] == "POP":
            if st:
                st.pop()
        elif x["action"] == "SET":
            st[:] = [x["value"]]

    for t in times:
        while hi < len(hist) and hist[hi][0] - t0 <= t:
            cur = hist[hi][1]
            hi += 1
        while ei < len(evs) and evs[ei][1] - t0 <= t:
            apply_event(evs[ei])
            ei += 1
        for sp in specs:
            ty = sp["type"]
            for p, (a, c) in cur.items():
                ok = sp["track"] == 0 or (sp["track"] == 1 and a == "Running") or (sp["track"] == 2 and a in ("Running", "Cooling", "Warming"))
                got = timeline(real_rows.get((0, g[p] + 1, ty), []), t)
                if not ok and got != 0:
                    return "thread row %d type %d shows %d at t=%d although the thread is %s (tracking mode %d)" % (g[p] + 1, ty, got, t, a, sp["track"])
                if ok and sp["name"] in ("flush", "subsystem", "function", "idle", "context_switch", "thread_type") and not sp["model"] in ("nosv", "nanos6") or \
                        (ok and sp["model"] in ("nosv", "nanos6") and sp["name"] in ("subsystem", "idle", "thread_type") and not any(
                            e[2][0] in "V6" and e[2][1] in "TY" for e in s.events)):
                    st_ = chanval.get((p, sp["model"], sp["index"]), [])
                    want = st_[-1] if st_ else 0
                    if got != want:
                        return "thread row %d type %d (%s %s) shows %d at t=%d while the thread is %s; the channel holds %d" % (
                            g[p] + 1, ty, sp["model"], sp["name"], got, t, a, want)
            for c in range(ncpu):
                run = [p for p, (a, cc) in cur.items() if a == "Running" and cc == c]
                got = timeline(real_rows.get((1, c + 1, ty), []), t)
                if len(run) == 1:
                    want = timeline(real_rows.get((0, g[run[0]] + 1, ty), []), t)
                    if got != want:
                        return "cpu row %d type %d shows %d at t=%d, its running thread (row %d) shows %d" % (c + 1, ty, got, t, g[run[0]] + 1, want)
                else:
                    rest = [c["value"] for c in tables.get("consts", []) if c["model"] == sp["model"] and c["name"] == "ST_RESTING"]
                    allowed = {0} | (set(rest) if sp["name"] == "idle" else set())
                    if got not in allowed:
                        return "cpu row %d type %d shows %d at t=%d with %d running threads" % (c + 1, ty, got, t, len(run))
    return None


def _model_name(tables, d):
    for m in tables["models"]:
        if m["dir"] == d:
            return m["name"]
    return d
