"""Common body of the emulator-core checks (C04, C05, C06, C08, ...): regenerate the tables from the
source, build the property's Coq file, run generated scenarios through the real ovniemu and the
extracted model, judge the real output with the independent deciders."""
import itertools
import os

from . import common, emucore, gen_hist, trace

TRUST = common.BASE_TRUST + [
    "translate/units/tables.py: event tables, channel specs, labels and enum constants are dumped by compiling /repo's own "
    "src/emu/<model>/{setup,event}.c in a probe TU on every run (gcc is trusted to evaluate them)",
    "hand model coq/Emu/EmuCoreDefs.v + DecodeDefs.v (handlers of ovni/event.c, thread.c, cpu.c, chan.c push/pop/set, "
    "the emission rule for track.c/mux.c/bay.c propagation, prv.c flags), validated end-to-end against ovniemu on every run",
    "extraction (ExtrOcamlBasic only) + OCaml 4.13 + oracle/emucore_drv.ml",
    "lib/vf/trace.py trace writer and PRV parser; lib/vf/emucore.py independent deciders (Python)",
    "parson, uthash, libc are not modelled; stream loading/merging is covered by C03/C12/C19",
]


GUARDS_TRUST = (
    "translate/units/guards.py + translate/c2gallina.py: the handlers pre_thread_*, pre_thread, pre_affinity_*, pre_affinity, "
    "model_ovni_event (ovni/event.c), cpu_migrate_thread (cpu.c), body_* (body.c), task_execute/pause/resume/end, create_body (task.c) "
    "are rendered into coq/Gen/Guards_gen.v from clang's JSON AST on every run and proved equal to the hand model "
    "(coq/Proofs/GuardsProofs.v); clang's AST and the Python printer are trusted; the primitives of coq/Emu/GuardsPre.v "
    "(thread_set_state, thread_set_cpu, thread_unset_cpu, thread_migrate_cpu, cpu_add_thread, cpu_remove_thread, cpu_update, "
    "loom_get_cpu, proc_find_thread, loom_find_thread, body_find, body_create, DL_PREPEND/DL_DELETE, field accessors) are "
    "hand-written meanings of C code that is not translated, tied by the end-to-end runs only")


UNIT_TRUST = {
    "chan": "translate/units/chan.py + _stagec.py: set_dirty, chan_set, chan_push, chan_pop, get_value, chan_read, chan_flush, chan_dirty, "
            "chan_prop_set/get of src/emu/chan.c are rendered into coq/Gen/Chan_gen.v from clang's JSON AST on every run and proved to compute "
            "raw_apply / raw_read (coq/Proofs/ChanProofs.v); clang's AST and the Python printer are trusted; coq/Emu/ChanPre.v (struct value, "
            "value_is_equal = memcmp of the two fields, the channel record with the union kept as two fields, the dirty callback as an input "
            "status) is hand-written",
    "sys": "translate/units/sys.py + _stagec.py: thread_set_state, thread_set_cpu, thread_unset_cpu, thread_migrate_cpu (thread.c), cpu_update "
           "(its list traversal as a fold_left), cpu_add_thread, cpu_remove_thread, cpu_migrate_thread (cpu.c) and the handlers of ovni/event.c "
           "calling them are rendered into coq/Gen/Sys_gen.v on every run over the C world of coq/Emu/SysPre.v, whose chan_set is the function "
           "generated from chan.c; proved to refine the primitives of coq/Emu/GuardsPre.v and, composed with the handler theorems, the model's "
           "oh_step (coq/Proofs/SysProofs.v). Still hand-written: find_thread (search loop with early return), DL_APPEND2/DL_DELETE2 (utlist), "
           "value_int64/value_null, pointers as indices, the lookups loom_get_cpu/proc_find_thread/loom_find_thread",
    "dispatch": "translate/units/dispatch.py + _stagec.py: model_<m>_event, process_ev, simple (nosv, nanos6, nodes), process_ev of mpi / tampi / "
                "openmp, kernel context_switch and ovni pre_cpu / pre_flush / model_ovni_event / mark_event are rendered into coq/Gen/Dispatch_gen.v on every run "
                "and proved to compute core_step on DecodeDefs/MarkDefs' decode_all for every model, category, value and payload "
                "(coq/Proofs/DispatchProofs.v); the table look-up ss_table[c][v] / fn_table[c][v] is the row dumped by unit tables (the one new "
                "primitive); pre_task is the function of unit taskev, pre_thread / pre_affinity those of unit guards, channel operations are "
                "chan_step. Hand-written (coq/Emu/DispatchPre.v): is_active / is_running / is_out_of_cpu as views of the thread state, the event "
                "clock and th->flush_start not represented, pre_type = type_create with the label's gid given, pre_burst = no effect, find_mark_type "
                "(uthash) = the position of the mark channel of that type",
    "taskev": "translate/units/taskev.py + _stagec.py: pre_task, create_task, update_task and the functions they call in src/emu/nosv/event.c and "
              "src/emu/nanos6/event.c (and the getters of body.c / task.c they use) are rendered into coq/Gen/TaskNosv_gen.v / TaskNanos6_gen.v on "
              "every run and proved equal to EmuCoreDefs.task_event / task_create for both models, without NULL dereference "
              "(coq/Proofs/TaskEvProofs.v); task_execute/pause/resume/end and body_get_running there are the functions generated by unit guards, "
              "chan_set/push/pop the raw channel operations proved for the generated chan.c. coq/Emu/TaskEvPre.v (EXT() slots never NULL, "
              "th->m.ch[i] = channel chan_of cs m i, task_find = find_task, task_create of task.c as EmuCoreDefs.task_create, getters only "
              "printed by err() are not evaluated) is hand-written",
    "prv": "translate/units/prv.py + _stagec.py: is_value_dup, emit, check_flags of src/emu/pv/prv.c are rendered into coq/Gen/Prv_gen.v on every "
           "run and proved equal to EmuCoreDefs.emit (coq/Proofs/PrvEmitProofs.v); coq/Emu/PrvPre.v (the value read from the channel as an input, "
           "write_line as an output record, value_is_equal/value_is_null) is hand-written",
}


def setup(chk, extra_units=()):
    chk.trusted_base = list(TRUST)
    if "guards" in extra_units:
        chk.trusted_base.append(GUARDS_TRUST)
    for u in extra_units:
        if u in UNIT_TRUST:
            chk.trusted_base.append(UNIT_TRUST[u])
    broken = common.translate(["tables"] + list(extra_units))
    if broken:
        chk.proof_broken = {"kind": "translator", "messages": broken}
        chk.obligations = len(common.property_theorems(chk.prop))
        chk.discharged = 0
        chk.notes.append("translator refused the current source: " + "; ".join(broken))
    else:
        chk.prove()
    build = common.repo_build("hook")
    oracle = None
    try:
        oracle = common.build_oracle("emucore", "Extract_emucore", "emucore_drv.ml", "emucore_x")
    except Exception as e:
        chk.notes.append("oracle unavailable: %r" % (e,))
        if not getattr(chk, "proof_broken", None):
            chk.proof_broken = {"kind": "extraction", "error": repr(e)[:600]}
    tables = emucore.load_tables()
    return build, oracle, tables


def exhaustive_oh(tables, nthreads, length, with_e_tail=True):
    """all OH histories of the given length over nthreads threads on one loom with one physical CPU + vCPU;
    execute goes to the physical CPU for thread 0 and to the vCPU for the others (so both kinds are bound)"""
    from .emucore import Scenario, i32
    alphabet = [(t, v) for t in range(nthreads) for v in "xeprcw"]
    for combo in itertools.product(alphabet, repeat=length):
        s = Scenario()
        for m in tables["models"]:
            s.versions[m["name"]] = m["version"]
        s.looms["la"] = [(0, 0)]
        for t in range(nthreads):
            s.threads.append({"loom": "la", "pid": 10, "tid": 101 + t})
        clk = 10
        for (t, v) in combo:
            clk += 3
            if v == "x":
                s.events.append((t, clk, "OHx", i32(0 if t == 0 else -1) + i32(101 + t) + i32(0)))
            else:
                s.events.append((t, clk, "OH" + v, b""))
        yield s


def run_cases(chk, build, oracle, tables, scenarios, types=None, deciders=(), label="e2e", spec_verdict=True):
    """runs scenarios on both sides; records cases, disagreements and spec violations.
    deciders: functions (s, real_rows, hist, tables) -> None|text applied to ACCEPTED real outputs."""
    real = emucore.run_real(build, scenarios)
    model = emucore.run_oracle(oracle, scenarios) if oracle else [None] * len(scenarios)
    corr = []
    for s, r, m in zip(scenarios, real, model):
        desc = s.describe()
        chk.case((label, desc["events"], desc["threads"], desc["looms"], desc["enabled"], desc["lint"]))
        only_thread_events = all(e[2][:2] in ("OH", "OA") for e in s.events)
        verdict, hist = emucore.py_spec(s)
        chk.count("%s:%s" % (label, "accepted" if r["rc"] == 0 else "rejected"))
        key_base = "%s:%s" % (label, common.hashlib.md5(repr(desc).encode()).hexdigest()[:12])
        if spec_verdict and only_thread_events and verdict is not None:
            if verdict and r["rc"] != 0:
                chk.violation("rejects-legal:" + key_base, "ovniemu rejects a history that follows the documented thread machine: %s" % emucore._first_error(r["stderr"]),
                              {"scenario": desc, "stderr": r["stderr"][:1500]})
            if (not verdict) and r["rc"] == 0:
                chk.violation("accepts-illegal:" + key_base, "ovniemu accepts a history with an illegal transition / live thread at the end / oversubscribed CPU",
                              {"scenario": desc})
        if r["rc"] == 0 and r["rows"] is not None:
            for d in deciders:
                why = d(s, r["rows"], hist, tables)
                if why:
                    chk.violation("%s:%s" % (d.__name__, key_base), why, {"scenario": desc})
        if m is not None:
            d = emucore.compare(s, r, m, types)
            if d:
                corr.append((desc, d))
    if corr:
        chk.coverage.setdefault("correspondence_disagreements", [])
        chk.coverage["correspondence_disagreements"] += [{"scenario": c[0], "what": c[1]} for c in corr[:5]]
    return corr, real, model


def finish_corr(chk, corr):
    if corr and not chk.violations:
        chk.violation("broken-correspondence",
                      "model and ovniemu disagree on %d scenarios, none of which violates the property's spec: %s" % (len(corr), corr[0][1]),
                      {"correspondence": "emucore model vs ovniemu", "first": corr[0]}, found_input=False)
    chk.coverage["traces_validated_against_impl"] = chk.evaluations


def d_thread(s, rows, hist, tables):
    return emucore.decide_thread_rows(s, rows, hist)


def d_cpu(s, rows, hist, tables):
    return emucore.decide_cpu_rows(s, rows, hist)


def d_views(s, rows, hist, tables):
    return emucore.decide_views(s, rows, hist, tables)
