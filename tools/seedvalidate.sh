#!/bin/sh
# usage: tools/seedvalidate.sh <seed id>   -> one line: OK / NOAPPLY / BUILD-FAILS / DEMO-PASSES-ON-CHANGED (patch drifted) / DEMO-FAILS-ON-UNCHANGED
# Re-validates a kept seeded change against /repo HEAD: the patch must apply, build, and its demo must fail on the
# changed build and pass on the unchanged one (the 88-test suite is run by tools/seedtest.sh when a seed is kept).
name=$1
sd=/verif/seeded/$name
wt=/var/tmp/seedval-$name
base=/var/tmp/seedchk-base
git -C /repo worktree add -q --detach $wt HEAD 2>/dev/null || { echo "$name WORKTREE-FAILED"; exit 0; }
trap 'git -C /repo worktree remove --force '$wt' 2>/dev/null' EXIT
if ! git -C $wt apply $sd/patch.diff 2>/dev/null; then echo "$name NOAPPLY"; exit 0; fi
off=$(git -C $wt apply -R --check $sd/patch.diff 2>&1 | head -1)
if ! (cmake -G Ninja -S $wt -B $wt/_b -DCMAKE_BUILD_TYPE=RelWithDebInfo -DCMAKE_C_FLAGS=-Wno-error >/dev/null 2>&1 && cmake --build $wt/_b -j4 >/dev/null 2>&1); then echo "$name BUILD-FAILS"; exit 0; fi
(cd $sd && timeout 300 bash ./demo.sh $wt/_b >/dev/null 2>&1); c=$?
(cd $sd && timeout 300 bash ./demo.sh $base/_b >/dev/null 2>&1); u=$?
if [ $u -ne 0 ]; then echo "$name DEMO-FAILS-ON-UNCHANGED exit=$u (changed exit=$c)"; exit 0; fi
if [ $c -eq 0 ]; then echo "$name DEMO-PASSES-ON-CHANGED"; exit 0; fi
echo "$name OK"
