#!/bin/sh
# usage: tools/seedregress.sh [seed ids...]   (run from the verif root, e.g. inside a `vp run` snapshot)
# Re-runs the quick check of every kept seeded change against the change applied to a scratch worktree of /repo HEAD
# and prints one line per seed: CAUGHT (concrete input) / CAUGHT-NFI (no-failing-input-found only) / MISSED / NOAPPLY.
# The seeds were confirmed (build, 88/88 tests, demo) when they were kept; this only re-checks detection.
here=$(pwd)
ids="$@"
[ -z "$ids" ] && ids=$(ls seeded)
for name in $ids; do
  sd=$here/seeded/$name
  prop=$(python3 -c "import json;print(json.load(open('$sd/meta.json'))['property'])")
  wt=/var/tmp/seedreg-$name
  git -C /repo worktree add -q --detach $wt HEAD 2>/dev/null || { echo "$name $prop WORKTREE-FAILED"; continue; }
  if ! git -C $wt apply $sd/patch.diff 2>/dev/null; then
    echo "$name $prop NOAPPLY"; git -C /repo worktree remove --force $wt; continue
  fi
  out=$(VERIF_REPO=$wt ./check $prop quick 2>&1)
  n=$(echo "$out" | grep -c '^VIOLATION')
  nfi=$(echo "$out" | grep '^VIOLATION' | grep -c 'no-failing-input-found')
  first=$(echo "$out" | grep '^VIOLATION' | head -1 | sed 's/.*replays\///' | cut -c1-70)
  if [ "$n" -eq 0 ]; then v=MISSED; elif [ "$n" -eq "$nfi" ]; then v=CAUGHT-NFI; else v=CAUGHT; fi
  echo "$name $prop $v n=$n $first"
  git -C /repo worktree remove --force $wt
done
python3 translate/gen.py >/dev/null 2>&1
echo REGRESSION-DONE
