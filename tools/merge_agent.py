#!/usr/bin/env python3
"""merge_agent.py <agent verif copy> <base commit> <file> [...]
Brings files an agent changed in its private copy into /verif: new file -> copy; /verif unchanged since <base> -> copy;
otherwise 3-way merge (git merge-file) of base / ours / theirs; conflicts are left in <file>.conflict and reported."""
import os, shutil, subprocess, sys
copy, base = sys.argv[1], sys.argv[2]
for f in sys.argv[3:]:
    theirs = os.path.join(copy, f)
    ours = os.path.join("/verif", f)
    if not os.path.exists(theirs):
        print("MISSING-IN-COPY", f); continue
    if not os.path.exists(ours):
        os.makedirs(os.path.dirname(ours), exist_ok=True); shutil.copy(theirs, ours); print("new      ", f); continue
    if open(theirs, "rb").read() == open(ours, "rb").read():
        print("same     ", f); continue
    r = subprocess.run(["git", "-C", "/verif", "diff", "--quiet", base, "--", f])
    dirty = subprocess.run(["git", "-C", "/verif", "diff", "--quiet", "HEAD", "--", f]).returncode != 0
    if r.returncode == 0 and not dirty:
        shutil.copy(theirs, ours); print("copied   ", f); continue
    b = subprocess.run(["git", "-C", "/verif", "show", "%s:%s" % (base, f)], stdout=subprocess.PIPE)
    if b.returncode != 0:
        print("NO-BASE  ", f, "(file not in base commit): left untouched; theirs at", theirs); continue
    open("/tmp/_base", "wb").write(b.stdout)
    m = subprocess.run(["git", "merge-file", "-p", ours, "/tmp/_base", theirs], stdout=subprocess.PIPE)
    if m.returncode == 0:
        open(ours, "wb").write(m.stdout); print("merged   ", f)
    else:
        open(ours + ".conflict", "wb").write(m.stdout); print("CONFLICT ", f, "-> %s.conflict (%d conflicts)" % (f, m.returncode))
