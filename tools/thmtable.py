#!/usr/bin/env python3
"""Print, per property file, the number of theorems and the names of those that speak about regenerated code
(`*_from_source*`, `*generated*`), for DESIGN.md section 10.2b."""
import re, glob, os
root = os.path.dirname(os.path.dirname(os.path.abspath(__file__)))
rows = {}
for f in sorted(glob.glob(root + "/coq/Props/Properties_C*.v")):
    pid = re.search(r"Properties_(C\d+)", f).group(1)
    names = re.findall(r"^(?:Theorem|Lemma|Example)\s+(\w+)", open(f).read(), re.M)
    r = rows.setdefault(pid, [0, [], 0, 0])
    r[0] += len(names)
    r[1] += [n for n in names if "from_source" in n or "generated" in n]
    r[2] += sum(1 for n in names if n.endswith("_partial") or "_partial_" in n)
    r[3] += sum(1 for n in names if "refuted" in n)
print("| id | theorems | `_partial` | `_refuted` | about regenerated code |")
print("|----|----------|-----------|-----------|------------------------|")
for pid, (n, fs, p, r) in sorted(rows.items()):
    print("| %s | %d | %d | %d | %s |" % (pid, n, p, r, ", ".join("`%s`" % x for x in fs) or "–"))
