#!/usr/bin/env python3
"""keepseed.py <seedout dir> <property> <caught-by summary> : copy a confirmed seeded change to /verif/seeded/<id>/"""
import json, os, shutil, sys, re
src, prop, caught = sys.argv[1], sys.argv[2], sys.argv[3]
name = os.path.basename(src.rstrip("/"))
dst = os.path.join("/verif/seeded", name)
os.makedirs(dst, exist_ok=True)
for f in os.listdir(src):
    p = os.path.join(src, f)
    if os.path.isfile(p) and os.path.getsize(p) < 400000:
        shutil.copy(p, dst)
readme = open(os.path.join(src, "README.md")).read() if os.path.exists(os.path.join(src, "README.md")) else ""
m = re.search(r"(?is)(what.{0,40}(needs|takes|needed).{0,400})", readme)
meta = {
    "property": prop,
    "origin": "fresh sub-agent given only the property text and a scratch worktree of /repo",
    "needs_to_manifest": (m.group(1).strip()[:600] if m else "see README.md"),
    "confirmed_by_me": "tools/seedtest.sh: patch applies on /repo HEAD, builds with the project's flags, 88/88 tests pass, demo exits 0 on the unchanged build and non-zero on the changed build",
    "checks_run": caught,
}
json.dump(meta, open(os.path.join(dst, "meta.json"), "w"), indent=1)
print("kept", dst)
