#!/bin/sh
# usage: seedtest.sh <seed-dir with patch.diff demo.sh> <check ids...>
# Confirms a seeded change in a scratch worktree (applies, builds, repo suite passes, demo fails with / passes without)
# and runs the given checks against it.  Prints one summary line per fact.  Never touches /repo's working tree.
sd=$1; shift
name=$(basename $sd)
wt=/var/tmp/seedchk-$name
base=/var/tmp/seedchk-base
git -C /repo worktree add -q --detach $wt HEAD 2>/dev/null || { echo "worktree failed"; exit 2; }
trap 'git -C /repo worktree remove --force '$wt' 2>/dev/null' EXIT
if ! git -C $wt apply $sd/patch.diff; then echo "$name: PATCH DOES NOT APPLY"; exit 1; fi
echo "$name: patch applies ($(git -C $wt diff --stat | tail -1))"
if [ ! -f $base/_b/.ok ] || [ "$(cat $base/_b/.ok)" != "$(git -C /repo rev-parse HEAD)" ]; then
  rm -rf $base; git -C /repo worktree prune; git -C /repo worktree add -q --detach $base HEAD
  cmake -G Ninja -S $base -B $base/_b -DCMAKE_BUILD_TYPE=RelWithDebInfo -DCMAKE_C_FLAGS=-Wno-error >/dev/null 2>&1 && cmake --build $base/_b >/dev/null 2>&1 && git -C /repo rev-parse HEAD > $base/_b/.ok
fi
if cmake -G Ninja -S $wt -B $wt/_b -DCMAKE_BUILD_TYPE=RelWithDebInfo -DCMAKE_C_FLAGS=-Wno-error >/dev/null 2>&1 && cmake --build $wt/_b >/dev/null 2>&1; then echo "$name: builds"; else echo "$name: BUILD FAILS"; exit 1; fi
echo "$name: suite: $(ctest --test-dir $wt/_b -j12 2>&1 | grep 'tests passed')"
(cd $sd && bash ./demo.sh $base/_b >/dev/null 2>&1); echo "$name: demo on unchanged build exit=$?"
(cd $sd && bash ./demo.sh $wt/_b >/dev/null 2>&1); echo "$name: demo on changed build exit=$?"
rm -rf $wt/_b
cd /verif
for c in "$@"; do
  out=$(VERIF_REPO=$wt ./check $c quick 2>&1)
  n=$(echo "$out" | grep -c '^VIOLATION')
  first=$(echo "$out" | grep '^VIOLATION' | head -1)
  echo "$name: check $c: violations=$n $first"
done
python3 /verif/translate/gen.py >/dev/null 2>&1   # coq/Gen back to /repo's tree
