#!/usr/bin/env python3
"""Writes /verif/MANIFEST.json from the table below (run after adding a check)."""
import json
import os
import re

HERE = os.path.dirname(os.path.dirname(os.path.abspath(__file__)))

TRUST = ("Coq 8.16.1 kernel (coqc, full .vo build, vm_compute; no native_compute); no axioms declared, Print Assumptions under every "
         "property theorem is recorded in the evidence; translators/harnesses/extraction (ExtrOcamlBasic only) and what is modelled "
         "rather than verified are listed in the evidence trusted_base and in DESIGN.md section 3")

def load_fragments():
    """manifest.d/Cnn.json: {engine, technique, text, design_ref, note[, category]} ;
       manifest.d/engine-<name>.json: {name, path, serves_properties, kind_free_text} ;
       manifest.d/na-Cnn.json: {reason} ; manifest.d/hooks.json: {source_commits:[...]}"""
    checks, engines, na, hooks = {}, [], {}, []
    d = os.path.join(HERE, "manifest.d")
    for f in sorted(os.listdir(d)):
        if not f.endswith(".json"):
            continue
        j = json.load(open(os.path.join(d, f)))
        if re.fullmatch(r"C\d+\.json", f):
            checks[f[:-5]] = j
        elif f.startswith("engine-"):
            engines.append(j)
        elif f.startswith("na-"):
            na[f[3:-5]] = j["reason"]
        elif f == "hooks.json":
            hooks = j["source_commits"]
    # only checks I have integrated and seen pass on the unchanged tree are claimed
    ready = set(open(os.path.join(d, "READY")).read().split()) if os.path.exists(os.path.join(d, "READY")) else set(checks)
    checks = {k: v for k, v in checks.items() if k in ready}
    engines = [e for e in engines if any(p in ready for p in e.get("serves_properties", []))]
    return checks, engines, na, hooks


PENDING_REASON = "not claimed yet: the model, theorems and correspondence for this property are still being built (DESIGN.md section 9 order of work); it will be decided by Coq proof like the others"

ALL = ["C%02d" % i for i in range(1, 21)]


def main():
    CHECKS, ENGINES, NA, HOOK_COMMITS = load_fragments()
    checks = []
    for pid in ALL:
        if pid not in CHECKS:
            continue
        c = CHECKS[pid]
        checks.append({
            "property_id": pid,
            "quick_cmd": "./check %s quick" % pid,
            "thorough_cmd": "./check %s thorough" % pid,
            "evidence_file": "evidence/%s.json" % pid,
            "replay_cmd_template": "./check %s --replay {path}" % pid,
            "engine": c["engine"],
            "level_claimed": {"category": c.get("category", "proof"), "text": c["text"], "design_ref": c["design_ref"]},
            "level_note": c["note"].replace("{TRUST}", TRUST),
            "technique": c["technique"],
        })
    man = {
        "version": 1,
        "setup_cmd": "./setup.sh",
        "hooks": {
            "guard": "OVNI_VERIF",
            "enable": "checks configure /repo's working tree with cmake -DCMAKE_C_FLAGS='-Wno-error -DOVNI_VERIF' into build/repo-hook-<tree hash>",
            "baseline_off_cmd": "./baseline_off.sh",
            "source_commits": HOOK_COMMITS,
            "add_only": True,
        },
        "engines": ENGINES,
        "checks": checks,
        "notes": "All checks: ./check <Cnn> quick|thorough. Technique: machine-checked proof in Coq 8.16 about Gallina models tied to /repo by regeneration (translate/) and by differential correspondence (harness/, oracle/). See DESIGN.md.",
        "not_applicable": [{"property_id": p, "reason": NA.get(p, PENDING_REASON)} for p in ALL if p not in CHECKS],
    }
    with open(os.path.join(HERE, "MANIFEST.json"), "w") as f:
        json.dump(man, f, indent=1)
        f.write("\n")


if __name__ == "__main__":
    main()
