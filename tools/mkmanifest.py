#!/usr/bin/env python3
"""Writes /verif/MANIFEST.json from the table below (run after adding a check)."""
import json
import os

HERE = os.path.dirname(os.path.dirname(os.path.abspath(__file__)))

TRUST = ("Coq 8.16.1 kernel (coqc, full .vo build, vm_compute; no native_compute); no axioms declared, Print Assumptions under every "
         "property theorem is recorded in the evidence; translators/harnesses/extraction (ExtrOcamlBasic only) and what is modelled "
         "rather than verified are listed in the evidence trusted_base and in DESIGN.md section 3")

CHECKS = {
    "C14": dict(
        engine="version",
        technique="Coq proof over Gallina translated from the C AST (version_is_compatible, ovni_version_check_str) + hand model of version_parse/model_probe tied by differential execution",
        text=("Theorems for all version triples/strings/require tables: compatibility <-> same major and minor<=, runtime check returns iff "
              "parsable and compatible, render/parse round trip, malformed classes refused, a model is enabled iff required compatibly or -a, "
              "errors iff some requirement is unusable, events of disabled models refused. The two comparison functions are regenerated from "
              "/repo's C on every run; the hand models are run against the compiled C and ovniemu on generated inputs."),
        design_ref="6.14",
        note=TRUST + "; POSIX strtok_r/strtol in the C locale; parson not modelled."),
}

PENDING_REASON = "not claimed yet: the model, theorems and correspondence for this property are still being built (DESIGN.md section 9 order of work); it will be decided by Coq proof like the others"

ALL = ["C%02d" % i for i in range(1, 21)]


def main():
    checks = []
    for pid in ALL:
        if pid not in CHECKS:
            continue
        c = CHECKS[pid]
        checks.append({
            "property_id": pid,
            "quick_cmd": "./check %s quick" % pid,
            "thorough_cmd": "./check %s thorough" % pid,
            "evidence_file": "evidence/%s.json" % pid,
            "replay_cmd_template": "./check %s --replay {path}" % pid,
            "engine": c["engine"],
            "level_claimed": {"category": c.get("category", "proof"), "text": c["text"], "design_ref": c["design_ref"]},
            "level_note": c["note"],
            "technique": c["technique"],
        })
    man = {
        "version": 1,
        "setup_cmd": "./setup.sh",
        "hooks": {
            "guard": "OVNI_VERIF",
            "enable": "checks configure /repo's working tree with cmake -DCMAKE_C_FLAGS='-Wno-error -DOVNI_VERIF' into build/repo-hook-<tree hash>",
            "baseline_off_cmd": "./baseline_off.sh",
            "source_commits": HOOK_COMMITS,
            "add_only": True,
        },
        "engines": ENGINES,
        "checks": checks,
        "notes": "All checks: ./check <Cnn> quick|thorough. Technique: machine-checked proof in Coq 8.16 about Gallina models tied to /repo by regeneration (translate/) and by differential correspondence (harness/, oracle/). See DESIGN.md.",
        "not_applicable": [{"property_id": p, "reason": NA.get(p, PENDING_REASON)} for p in ALL if p not in CHECKS],
    }
    with open(os.path.join(HERE, "MANIFEST.json"), "w") as f:
        json.dump(man, f, indent=1)
        f.write("\n")


HOOK_COMMITS = []
NA = {}
ENGINES = [
    {"name": "version", "path": "coq/Emu/VersionDefs.v coq/Gen/Version_gen.v coq/Proofs/VersionProofs.v harness/version_h.c oracle/version_drv.ml lib/checks/c14.py",
     "serves_properties": ["C14"], "kind_free_text": "translated comparison functions + hand model of version_parse and model enabling; Coq proofs; extracted oracle vs compiled C and ovniemu"},
]

if __name__ == "__main__":
    main()
