#!/bin/sh
# usage: tools/coqchk_all.sh   (from the verif root)
# Regenerates coq/Gen from /repo, builds every property file (full .vo) and re-checks all of them and everything they
# depend on with the independent checker coqchk; `-o` prints the axioms the checked modules rely on.
# Output: coqchk_report.txt (last lines of coqchk's summary + the list of modules).
set -e
here=$(pwd)
python3 translate/gen.py >/dev/null
python3 -c "import sys; sys.path.insert(0,'lib'); from vf import common; common.coq_makefile()"
cd coq
mods=$(ls Props/Properties_*.v | sed 's/\.v$//; s/\//./; s/^/OV./')
timeout 3000 make -j8 $(ls Props/Properties_*.v | sed 's/\.v$/.vo/') >/dev/null
start=$(date +%s)
timeout 7200 coqchk -o -silent -Q . OV $mods > $here/build/coqchk.out 2>&1 || true
end=$(date +%s)
cd $here
{
  echo "coqchk -o -silent -Q coq OV <all property modules>   ($(coqchk --version 2>/dev/null | head -1)); wall $((end-start)) s; /verif commit $(git rev-parse --short HEAD), /repo commit $(git -C /repo rev-parse --short HEAD)"
  echo "modules: $mods"
  echo "---- summary printed by coqchk"
  sed -n '/CONTEXT SUMMARY/,$p' build/coqchk.out
  grep -i "error\|anomaly\|fatal" build/coqchk.out | head -5 || true
} > coqchk_report.txt
tail -25 coqchk_report.txt
