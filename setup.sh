#!/bin/sh
# MANIFEST.setup_cmd: build the framework from files on disk only (offline).
set -e
cd "$(dirname "$0")"
mkdir -p build evidence
python3 translate/gen.py || true
python3 - <<'PY'
import sys
sys.path.insert(0, "lib")
from vf import common
common.coq_makefile()
PY
timeout 3000 make -C coq -k -j"$(nproc)" >build/setup-coq.log 2>&1 || { tail -30 build/setup-coq.log; echo "setup: coq build had failures (checks will report them)"; }
echo "setup done"
