/* In-process harness for the loader engine (C12/C19): the real stream.c, emu_ev.c and
 * ovni.c (event sizes) on byte strings given on stdin, one answer line per input line.
 *
 *   S <unsorted:0|1> <hex>   write the bytes to a scratch file, load_obs() it (the real loader:
 *                            open, fstat, mmap, check_stream_header), then replace the mapping by a
 *                            copy placed between two PROT_NONE guard pages (twice: once flush with the
 *                            end of the readable region, once flush with its start) and stream_step()
 *                            until it returns != 0.  A SIGSEGV inside the walk is an out-of-bounds read.
 *        answer: loaderr <why> | end <evs> | err <why> <evs> | oob <evs> | noprogress <off> <evs> | hang <evs>
 *                evs = off:size:clock,... or -
 *   Z <hex>                  ovni_ev_size() and ovni_payload_size() of the event made of these bytes
 *   E <hex>;<hex>;...        emu_ev() of each event into the SAME struct emu_ev, in order
 *        answer per event: m.c.v:has_payload:payload_size:is_jumbo:payload_is_null
 */
/* system headers first: the repo's common.h poisons some libc names (usleep, ...) */
#include <fcntl.h>
#include <setjmp.h>
#include <signal.h>
#include <stdio.h>
#include <stdlib.h>
#include <string.h>
#include <sys/mman.h>
#include <sys/stat.h>
#include <unistd.h>

#include "stream.c"
#include "emu_ev.h"

static sigjmp_buf jb;
static void on_segv(int sig) { (void) sig; siglongjmp(jb, 1); }

static char *errbuf = NULL;
static size_t errlen = 0;
static FILE *real_stderr;

static void capture_begin(void)
{
	errbuf = NULL; errlen = 0;
	stderr = open_memstream(&errbuf, &errlen);
}

static void capture_end(void)
{
	fclose(stderr);
	stderr = real_stderr;
}

static size_t unhex(const char *s, uint8_t **out)
{
	if (strcmp(s, "-") == 0) { *out = malloc(1); return 0; }
	size_t n = strlen(s) / 2;
	uint8_t *b = malloc(n + 64);
	memset(b, 0, n + 64);
	for (size_t i = 0; i < n; i++) {
		unsigned v; sscanf(s + 2 * i, "%2x", &v); b[i] = (uint8_t) v;
	}
	*out = b;
	return n;
}

struct walk { char verdict[64]; char *evs; size_t evslen; };

/* one walk over a guarded copy; end_aligned: the buffer ends exactly at the guard page */
static void walk(struct stream *loaded, const uint8_t *data, size_t n, int end_aligned, struct walk *w)
{
	size_t ps = (size_t) sysconf(_SC_PAGESIZE);
	size_t pages = (n + ps - 1) / ps; if (pages == 0) pages = 1;
	size_t total = (pages + 2) * ps;
	uint8_t *base = mmap(NULL, total, PROT_NONE, MAP_PRIVATE | MAP_ANONYMOUS, -1, 0);
	mprotect(base + ps, pages * ps, PROT_READ | PROT_WRITE);
	uint8_t *p = end_aligned ? base + ps + pages * ps - n : base + ps;
	memcpy(p, data, n);

	struct stream st = *loaded;
	st.buf = p;

	FILE *ef = open_memstream(&w->evs, &w->evslen);
	int first = 1;
	long steps = 0, max = (long) n + 2;
	strcpy(w->verdict, "?");

	capture_begin();
	if (sigsetjmp(jb, 1) == 0) {
		while (1) {
			int64_t prev = st.offset;
			int had = st.cur_ev != NULL;
			int ret = stream_step(&st);
			if (ret > 0) { strcpy(w->verdict, "end"); break; }
			if (ret < 0) {
				fflush(stderr);
				const char *why = "other";
				if (errbuf && strstr(errbuf, "incomplete event")) why = "incomplete";
				else if (errbuf && strstr(errbuf, "clock goes backwards")) why = "clock";
				else if (errbuf && strstr(errbuf, "exceeds size")) why = "exceeds";
				else if (errbuf && strstr(errbuf, "inactive")) why = "inactive";
				snprintf(w->verdict, sizeof(w->verdict), "err %s", why);
				break;
			}
			if (had && st.offset <= prev) {
				snprintf(w->verdict, sizeof(w->verdict), "noprogress %lld", (long long) st.offset);
				break;
			}
			fprintf(ef, "%s%lld:%d:%lld", first ? "" : ",", (long long) st.offset,
					ovni_ev_size(st.cur_ev), (long long) st.lastclock);
			first = 0;
			if (++steps > max) { strcpy(w->verdict, "hang"); break; }
		}
	} else {
		strcpy(w->verdict, "oob");
	}
	capture_end();
	free(errbuf);
	fclose(ef);
	munmap(base, total);
}

static void do_stream(int unsorted, const char *hex)
{
	uint8_t *data; size_t n = unhex(hex, &data);
	char path[] = "/var/tmp/loader-h-XXXXXX";
	int fd = mkstemp(path);
	if (fd < 0 || write(fd, data, n) != (ssize_t) n) { printf("? cannot write scratch file\n"); return; }
	close(fd);

	struct stream st;
	memset(&st, 0, sizeof(st));
	snprintf(st.path, PATH_MAX, "%s", path);
	snprintf(st.relpath, PATH_MAX, "x");
	capture_begin();
	int ret = load_obs(&st, path);
	fflush(stderr);
	unlink(path);
	if (ret != 0) {
		const char *why = "other";
		if (errbuf && strstr(errbuf, "is empty")) why = "empty";
		else if (errbuf && strstr(errbuf, "incomplete stream header")) why = "short";
		else if (errbuf && (strstr(errbuf, "wrong stream magic") || strstr(errbuf, "version mismatch"))) {
			static char hb[64];
			snprintf(hb, sizeof(hb), "header%s%s", strstr(errbuf, "wrong stream magic") ? "+magic" : "",
					strstr(errbuf, "version mismatch") ? "+version" : "");
			why = hb;
		}
		capture_end();
		printf("loaderr %s\n", why);
		free(errbuf); free(data);
		return;
	}
	capture_end();
	free(errbuf);
	/* the walks use guarded copies: drop the loader's own mapping */
	if (getenv("OVNI_VERIF_HEAPBUF") != NULL)
		free(st.buf);
	else
		munmap(st.buf, (size_t) st.size);
	st.buf = NULL;
	if (unsorted)
		stream_allow_unsorted(&st);

	if (!st.active) {
		/* no events: consumers never step it (step_stream returns +1) */
		printf("end -\n");
		free(data);
		return;
	}

	struct walk a, b;
	walk(&st, data, n, 1, &a);
	walk(&st, data, n, 0, &b);
	struct walk *w = &a;
	if (strcmp(b.verdict, "oob") == 0 && strcmp(a.verdict, "oob") != 0) w = &b;
	printf("%s %s\n", w->verdict, (w->evs && w->evs[0]) ? w->evs : "-");
	free(a.evs); free(b.evs); free(data);
}

static void do_size(const char *hex)
{
	uint8_t *data; unhex(hex, &data);
	struct ovni_ev *ev = (struct ovni_ev *) data;
	printf("%d %d\n", ovni_ev_size(ev), ovni_payload_size(ev));
	free(data);
}

static void do_emu_ev(char *list)
{
	struct emu_ev ev;
	memset(&ev, 0, sizeof(ev));
	char *save = NULL;
	int first = 1;
	uint8_t *keep[256]; int nkeep = 0;
	for (char *tok = strtok_r(list, ";", &save); tok && nkeep < 256; tok = strtok_r(NULL, ";", &save)) {
		uint8_t *data; unhex(tok, &data);
		keep[nkeep++] = data;
		emu_ev(&ev, (struct ovni_ev *) data, 0, 0);
		printf("%s%u.%u.%u:%d:%llu:%d:%d", first ? "" : " ", ev.m, ev.c, ev.v, ev.has_payload,
				(unsigned long long) ev.payload_size, ev.is_jumbo, ev.payload == NULL);
		first = 0;
	}
	printf("\n");
	for (int i = 0; i < nkeep; i++) free(keep[i]);
}

int main(void)
{
	real_stderr = stderr;
	struct sigaction sa; memset(&sa, 0, sizeof(sa));
	sa.sa_handler = on_segv; sigemptyset(&sa.sa_mask); sa.sa_flags = SA_NODEFER;
	sigaction(SIGSEGV, &sa, NULL);
	sigaction(SIGBUS, &sa, NULL);

	char *line = NULL; size_t cap = 0; ssize_t len;
	while ((len = getline(&line, &cap, stdin)) > 0) {
		if (line[len - 1] == '\n') line[len - 1] = '\0';
		if (line[0] == 'S' && line[1] == ' ') {
			int unsorted = line[2] == '1';
			do_stream(unsorted, line + 4);
		} else if (line[0] == 'Z' && line[1] == ' ') {
			do_size(line + 2);
		} else if (line[0] == 'E' && line[1] == ' ') {
			do_emu_ev(line + 2);
		} else {
			printf("?\n");
		}
		fflush(stdout);
	}
	return 0;
}
