/* In-process harness for C13: drives the real PCF / ROW / PRV writers of src/emu/pv (pcf.c, prf.c, prv.c are
 * #included) with a script of operations and prints the index of the first refused operation or the bytes of the
 * files they write; same protocol as the "OPS" lines of oracle/pv_drv.ml.
 *   T<id>:<hexlabel>          pcf_add_type
 *   V<id>:<value>:<hexlabel>  pcf_add_value on the type pcf_find_type(id) returns (no such type = refused)
 *   R<n>                      (first) number of rows of the ROW file
 *   A<index>:<hexlabel>       prf_add
 *   G<row>:<type>:<flags>     prv_register          (PRV file opened with the same number of rows)
 *   D<time>                   prv_advance
 * answer:  E <k>   operation k (0-based) was refused
 *          ok <pcf hex> <row hex | rowerr> <prv hex> */
#include <stdio.h>
#include <stdlib.h>
#include <string.h>
#include <inttypes.h>
#include "common.h"
#include "bay.h"
#include "chan.h"
#include "pv/pcf.c"
#include "pv/prf.c"
#undef write_header
#define write_header prv_write_header
#include "pv/prv.c"

static char *unhex(const char *h)
{
	if (strcmp(h, "-") == 0) return strdup("");
	size_t n = strlen(h) / 2;
	char *s = malloc(n + 1);
	for (size_t i = 0; i < n; i++) { unsigned v; sscanf(h + 2 * i, "%2x", &v); s[i] = (char) v; }
	s[n] = 0;
	return s;
}

static void phex(const char *b, size_t n)
{
	if (n == 0) { printf("-"); return; }
	for (size_t i = 0; i < n; i++) printf("%02x", (unsigned char) b[i]);
}

int main(void)
{
	static char line[1 << 20];
	freopen("/dev/null", "w", stderr);
	while (fgets(line, sizeof(line), stdin)) {
		struct pcf pcf; struct prf prf; struct prv prv; struct bay bay;
		char *pbuf = NULL, *rbuf = NULL, *vbuf = NULL; size_t plen = 0, rlen = 0, vlen = 0;
		memset(&pcf, 0, sizeof(pcf)); memset(&prf, 0, sizeof(prf));
		pcf.f = open_memstream(&pbuf, &plen);
		FILE *rf = open_memstream(&rbuf, &rlen);
		FILE *vf = open_memstream(&vbuf, &vlen);
		bay_init(&bay);
		long nrows = 0; int k = 0, failed = -1, opened = 0;
		static struct chan chans[256]; int nch = 0;
		for (char *tok = strtok(line, " \n"); tok; tok = strtok(NULL, " \n"), k++) {
			if (strcmp(tok, "OPS") == 0) { k--; continue; }
			int rc = 0;
			if (tok[0] == 'R') {
				nrows = atol(tok + 1);
				prf.f = rf; prf.nrows = nrows; prf.rows = calloc((size_t) (nrows > 0 ? nrows : 1), sizeof(struct prf_row));
				if (prv_open_file(&prv, nrows, vf) != 0) rc = -1;
				opened = 1;
			} else if (tok[0] == 'T') {
				char *c = strchr(tok, ':'); *c = 0; char *l = unhex(c + 1);
				if (pcf_add_type(&pcf, atoi(tok + 1), l) == NULL) rc = -1;
				free(l);
			} else if (tok[0] == 'V') {
				char *c = strchr(tok, ':'); *c = 0; char *c2 = strchr(c + 1, ':'); *c2 = 0; char *l = unhex(c2 + 1);
				struct pcf_type *t = pcf_find_type(&pcf, atoi(tok + 1));
				if (t == NULL || pcf_add_value(t, atoll(c + 1), l) == NULL) rc = -1;
				free(l);
			} else if (tok[0] == 'A') {
				char *c = strchr(tok, ':'); *c = 0; char *l = unhex(c + 1);
				if (prf_add(&prf, atol(tok + 1), l) != 0) rc = -1;
				free(l);
			} else if (tok[0] == 'G') {
				long row, type, flags;
				sscanf(tok + 1, "%ld:%ld:%ld", &row, &type, &flags);
				struct chan *ch = &chans[nch % 256];
				chan_init(ch, CHAN_SINGLE, "h%d", nch); nch++;
				if (bay_register(&bay, ch) != 0 || prv_register(&prv, row, type, &bay, ch, flags) != 0) rc = -1;
			} else if (tok[0] == 'D') {
				if (prv_advance(&prv, (int64_t) atoll(tok + 1)) != 0) rc = -1;
			}
			if (rc != 0) { failed = k; break; }
		}
		if (failed >= 0 || !opened) {
			printf("E %d\n", failed);
		} else {
			pcf_close(&pcf);
			printf("ok "); phex(pbuf, plen); printf(" ");
			if (prf_close(&prf) != 0) { printf("rowerr"); }
			else { phex(rbuf, rlen); }
			prv_close(&prv);
			printf(" "); phex(vbuf, vlen); printf("\n");
		}
		fflush(stdout);
	}
	return 0;
}
