/* prints task_get_type_gid(label) of the real emulator for each label (hex) on stdin */
#include <stdio.h>
#include <stdlib.h>
#include <string.h>
#include "task.h"
int main(void)
{
	char line[8192];
	while (fgets(line, sizeof(line), stdin)) {
		size_t n = strlen(line);
		while (n && (line[n-1] == '\n')) line[--n] = 0;
		char buf[4096]; size_t m = n / 2;
		for (size_t i = 0; i < m; i++) { unsigned v; sscanf(line + 2*i, "%2x", &v); buf[i] = (char) v; }
		buf[m] = 0;
		printf("%u\n", task_get_type_gid(buf));
	}
	return 0;
}
