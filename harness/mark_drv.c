/* Driver for C17: executes a script of mark API calls on the REAL libovni, one traced thread after the
 * other.  Calls that may abort are first tried in a forked child; "die" is reported and the call skipped.
 * clock_gettime is interposed: every call returns a strictly increasing counter (10 ns steps).
 * Script lines:  proc <loom> <pid> | thread <tid> <cpuindex> | type <t> <flags> <hex|NULL|-> | label <t> <v> <hex|NULL|->
 *                push <t> <v> | pop <t> <v> | set <t> <v> | pause | resume | cool | warm | endthread | endproc */
#include <stdio.h>
#include <stdlib.h>
#include <string.h>
#include <time.h>
#include <unistd.h>
#include <stdint.h>
#include <sys/wait.h>
#include <pthread.h>
#include "ovni.h"

static long long fake_ns = 1000;
int clock_gettime(clockid_t id, struct timespec *tp)
{
	(void) id;
	static int shifted = 0;
	if (!shifted) {
		/* MARK_DRV_CLOCK_SHIFT: a second process of the same trace gets clocks that never coincide with the first */
		const char *e = getenv("MARK_DRV_CLOCK_SHIFT");
		if (e)
			fake_ns += atoll(e);
		shifted = 1;
	}
	fake_ns += 10;
	tp->tv_sec = fake_ns / 1000000000LL;
	tp->tv_nsec = fake_ns % 1000000000LL;
	return 0;
}

static char *unhex(const char *h)
{
	if (strcmp(h, "NULL") == 0) return NULL;
	if (strcmp(h, "-") == 0) return strdup("");
	size_t n = strlen(h) / 2;
	char *s = malloc(n + 1);
	for (size_t i = 0; i < n; i++) { unsigned v; sscanf(h + 2 * i, "%2x", &v); s[i] = (char) v; }
	s[n] = 0;
	return s;
}

static void emit(const char *mcv, const void *payload, int size)
{
	struct ovni_ev ev = {0};
	ovni_ev_set_clock(&ev, ovni_clock_now());
	ovni_ev_set_mcv(&ev, mcv);
	if (size > 0) ovni_payload_add(&ev, payload, size);
	ovni_ev_emit(&ev);
}

/* returns 1 if the call aborts (tried in a child) */
static int dies(void (*f)(void *), void *arg)
{
	fflush(stdout);
	pid_t p = fork();
	if (p == 0) { freopen("/dev/null", "w", stderr); f(arg); _exit(0); }
	int st = 0;
	waitpid(p, &st, 0);
	return !(WIFEXITED(st) && WEXITSTATUS(st) == 0);
}

struct call { int kind; int32_t type; int64_t value; long flags; char *str; };
static void do_call(void *p)
{
	struct call *c = p;
	switch (c->kind) {
	case 0: ovni_mark_type(c->type, c->flags, c->str); break;
	case 1: ovni_mark_label(c->type, c->value, c->str); break;
	case 2: ovni_mark_push(c->type, c->value); break;
	case 3: ovni_mark_pop(c->type, c->value); break;
	case 4: ovni_mark_set(c->type, c->value); break;
	}
}

/* the lines of one traced thread are executed by a pthread of their own (rthread is thread local) */
static char *tlines[4096];
static int ntl;

static void *run_thread(void *arg)
{
	(void) arg;
	char a[4096];
	long long t, v, fl;
	int tid, cpu;
	for (int i = 0; i < ntl; i++) {
		char *line = tlines[i];
		struct call c = {0};
		int have = 0;
		if (sscanf(line, "thread %d %d", &tid, &cpu) == 2) {
			ovni_thread_init(tid);
			if (cpu >= 0) ovni_add_cpu(cpu, cpu);
			int32_t pl[3] = { cpu, tid, 0 };
			emit("OHx", pl, sizeof(pl));
			printf("ok\n");
		}
		else if (sscanf(line, "type %lld %lld %4000s", &t, &fl, a) == 3) { c.kind = 0; c.type = (int32_t) t; c.flags = fl; c.str = unhex(a); have = 1; }
		else if (sscanf(line, "label %lld %lld %4000s", &t, &v, a) == 3) { c.kind = 1; c.type = (int32_t) t; c.value = v; c.str = unhex(a); have = 1; }
		else if (sscanf(line, "push %lld %lld", &t, &v) == 2) { c.kind = 2; c.type = (int32_t) t; c.value = v; have = 1; }
		else if (sscanf(line, "pop %lld %lld", &t, &v) == 2) { c.kind = 3; c.type = (int32_t) t; c.value = v; have = 1; }
		else if (sscanf(line, "set %lld %lld", &t, &v) == 2) { c.kind = 4; c.type = (int32_t) t; c.value = v; have = 1; }
		else if (strncmp(line, "pause", 5) == 0) { emit("OHp", NULL, 0); printf("ok\n"); }
		else if (strncmp(line, "resume", 6) == 0) { emit("OHr", NULL, 0); printf("ok\n"); }
		else if (strncmp(line, "cool", 4) == 0) { emit("OHc", NULL, 0); printf("ok\n"); }
		else if (strncmp(line, "warm", 4) == 0) { emit("OHw", NULL, 0); printf("ok\n"); }
		else if (strncmp(line, "endthread", 9) == 0) { emit("OHe", NULL, 0); ovni_flush(); ovni_thread_free(); printf("ok\n"); }
		else printf("?\n");
		if (have) {
			if (dies(do_call, &c)) printf("die\n");
			else { do_call(&c); printf("ok\n"); }
		}
		fflush(stdout);
	}
	return NULL;
}

int main(void)
{
	char line[8192], a[4096];
	int pid;
	while (fgets(line, sizeof(line), stdin)) {
		if (sscanf(line, "proc %4000s %d", a, &pid) == 2) { ovni_proc_init(1, a, pid); printf("ok\n"); fflush(stdout); }
		else if (strncmp(line, "endproc", 7) == 0) { ovni_proc_fini(); printf("ok\n"); fflush(stdout); }
		else {
			tlines[ntl++] = strdup(line);
			if (strncmp(line, "endthread", 9) == 0) {
				pthread_t th;
				pthread_create(&th, NULL, run_thread, NULL);
				pthread_join(th, NULL);
				for (int i = 0; i < ntl; i++) free(tlines[i]);
				ntl = 0;
			}
		}
	}
	return 0;
}
