/* In-process harness for C03 (unit traceload): runs the REAL trace_load of src/emu/trace.c (included below, so
 * that cb_nftw / is_stream / load_stream / cmp_streams are the ones of the working tree) with the REAL nftw,
 * opendir, path.c on a directory tree prepared by the check.  Only stream_load is replaced (the macro below
 * renames the callee inside trace.c): the stub records nothing but what the real one does first - it zeroes the
 * stream and copies relpath - so that the streams need no valid stream.json / stream.obs content.
 *
 *   W <trace directory as given to trace_load, hex>
 * answer (same format as oracle/tracewalk_drv.ml):
 *   fail
 *   ok n=<nstreams> <relpath hex>,<relpath hex>,...      trace->streams in list order ('-' for none;
 *                                                         an empty relpath is printed as '.')
 * Every line runs in a forked child. */
#define _XOPEN_SOURCE 500
#include <unistd.h>
#include <signal.h>
#include <sys/wait.h>
#define stream_load harness_stream_load
#include "trace.c"
#undef stream_load

int
harness_stream_load(struct stream *stream, const char *tracedir, const char *relpath)
{
	(void) tracedir;
	memset(stream, 0, sizeof(struct stream));
	if (snprintf(stream->relpath, PATH_MAX, "%s", relpath) >= PATH_MAX)
		return -1;
	return 0;
}

static int
hexval(int c)
{
	if (c >= '0' && c <= '9') return c - '0';
	if (c >= 'a' && c <= 'f') return c - 'a' + 10;
	return -1;
}

static void
run_line(char *line)
{
	char *d = strtok(line, " \n");
	if (d == NULL) {
		printf("?\n");
		return;
	}
	size_t n = strlen(d);
	char *dir = calloc(1, n / 2 + 1);
	for (size_t i = 0; i + 1 < n; i += 2)
		dir[i / 2] = (char) (hexval(d[i]) * 16 + hexval(d[i + 1]));
	static struct trace trace;
	memset(&trace, 0xa5, sizeof(trace));
	if (trace_load(&trace, dir) != 0) {
		printf("fail\n");
		return;
	}
	printf("ok n=%ld ", trace.nstreams);
	int k = 0;
	for (struct stream *s = trace.streams; s; s = s->next) {
		if (k++) printf(",");
		if (s->relpath[0] == '\0') printf(".");
		for (const char *c = s->relpath; *c; c++)
			printf("%02x", (unsigned char) *c);
	}
	if (k == 0) printf("-");
	printf("\n");
}

int
main(void)
{
	char *line = NULL;
	size_t cap = 0;
	freopen("/dev/null", "w", stderr);
	while (getline(&line, &cap, stdin) > 0) {
		if (line[0] != 'W' || line[1] != ' ') {
			printf("?\n");
			fflush(stdout);
			continue;
		}
		fflush(stdout);
		pid_t p = fork();
		if (p == 0) {
			alarm(20);
			run_line(line + 2);
			fflush(stdout);
			_exit(0);
		}
		int st = 0;
		waitpid(p, &st, 0);
		if (!(WIFEXITED(st) && WEXITSTATUS(st) == 0))
			printf(" crash(%d)\n", WIFSIGNALED(st) ? WTERMSIG(st) : -WEXITSTATUS(st));
		fflush(stdout);
	}
	return 0;
}
