/* In-process harness for C03: executes op scripts on the REAL src/include/heap.h.
 *
 *   H <op>,<op>,...     op = i<key>.<id> | p
 *
 * After EVERY op it prints  <popped id or ->/<ids at positions 1..size through heap_get()>/<audit>
 * (same answer format as oracle/merge_drv.ml).  audit = 1 iff the pointer structure
 * is the complete tree: for every position p, heap_get(p)->parent == heap_get(p/2),
 * ->left == heap_get(2p) or NULL, ->right == heap_get(2p+1) or NULL, root->parent == NULL,
 * root == NULL iff size == 0.  The comparison function is the one of player.c
 * (inverted: smaller key = larger node).
 *
 * Every line runs in a forked child so that a crash or a die() of a broken heap is
 * reported as an answer ("crash") instead of killing the batch. */
#include <stdio.h>
#include <stdlib.h>
#include <string.h>
#include <unistd.h>
#include <signal.h>
#include <sys/wait.h>
#include "common.h"
#include "heap.h"

struct item {
	long key;
	long id;
	heap_node_t hh;
};

static int
item_cmp(heap_node_t *a, heap_node_t *b)
{
	struct item *ia = heap_elem(a, struct item, hh);
	struct item *ib = heap_elem(b, struct item, hh);
	if (ia->key < ib->key)
		return +1;
	else if (ia->key > ib->key)
		return -1;
	else
		return 0;
}

static int
audit(heap_head_t *h)
{
	if (h->size == 0)
		return h->root == NULL;
	if (h->root == NULL || h->root->parent != NULL)
		return 0;
	for (size_t p = 1; p <= h->size; p++) {
		heap_node_t *n = heap_get(h, p);
		if (n == NULL)
			return 0;
		heap_node_t *par = p == 1 ? NULL : heap_get(h, p / 2);
		heap_node_t *l = 2 * p <= h->size ? heap_get(h, 2 * p) : NULL;
		heap_node_t *r = 2 * p + 1 <= h->size ? heap_get(h, 2 * p + 1) : NULL;
		if (n->parent != par || n->left != l || n->right != r)
			return 0;
	}
	return 1;
}

static void
print_state(heap_head_t *h, long popped, int has_popped, int first)
{
	if (!first)
		printf(" ");
	if (has_popped)
		printf("%ld/", popped);
	else
		printf("-/");
	if (h->size == 0)
		printf("-");
	for (size_t p = 1; p <= h->size; p++) {
		heap_node_t *n = heap_get(h, p);
		if (n == NULL) {
			printf("%sNULL", p > 1 ? "." : "");
			continue;
		}
		printf("%s%ld", p > 1 ? "." : "", heap_elem(n, struct item, hh)->id);
	}
	printf("/%d", audit(h));
}

static void
run_script(char *ops)
{
	heap_head_t head;
	heap_init(&head);
	int first = 1;
	for (char *op = strtok(ops, ",\n"); op; op = strtok(NULL, ",\n")) {
		if (op[0] == 'p') {
			heap_node_t *n = heap_pop_max(&head, item_cmp);
			if (n == NULL)
				print_state(&head, 0, 0, first);
			else
				print_state(&head, heap_elem(n, struct item, hh)->id, 1, first);
		} else if (op[0] == 'i') {
			struct item *it = calloc(1, sizeof(*it));
			if (sscanf(op + 1, "%ld.%ld", &it->key, &it->id) != 2) {
				printf("?");
				continue;
			}
			/* garbage in the link fields: heap_insert must reset them */
			it->hh.left = it->hh.right = it->hh.parent = (heap_node_t *) 0x10;
			heap_insert(&head, &it->hh, item_cmp);
			print_state(&head, 0, 0, first);
		} else {
			printf("%s?", first ? "" : " ");
		}
		first = 0;
	}
	printf("\n");
}

int
main(void)
{
	static char line[1 << 20];
	freopen("/dev/null", "w", stderr);
	while (fgets(line, sizeof(line), stdin)) {
		if (line[0] != 'H' || line[1] != ' ') {
			printf("?\n");
			fflush(stdout);
			continue;
		}
		fflush(stdout);
		pid_t p = fork();
		if (p == 0) {
			alarm(10);
			run_script(line + 2);
			fflush(stdout);
			_exit(0);
		}
		int st = 0;
		waitpid(p, &st, 0);
		if (!(WIFEXITED(st) && WEXITSTATUS(st) == 0)) {
			/* the child may have printed a partial line */
			printf(" crash(%d)\n", WIFSIGNALED(st) ? WTERMSIG(st) : -WEXITSTATUS(st));
		}
		fflush(stdout);
	}
	return 0;
}
