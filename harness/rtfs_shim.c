/* LD_PRELOAD shim for the rtfs engine (C09/C10).
 *
 * Intercepts, at the libc API level used by libovni and parson, the calls
 *   mkdir open write pwrite sendfile copy_file_range close fopen fputs fwrite fread fclose opendir readdir
 *   closedir remove unlink rmdir rename
 * on paths in scope (path starts with $RTFS_SCOPE, default "rtfs_"; the driver
 * runs with the scratch directory as cwd and relative OVNI_TRACEDIR/OVNI_TMPDIR)
 * and on the descriptors/streams/dirs opened on such paths.  glibc-internal
 * calls of stdio do not go through the PLT, so stdio is seen as fopen/fputs/
 * fwrite/fread/fclose and its buffering is a property of the model.
 *
 * Every intercepted in-scope call gets a sequence number N (1-based).
 *   RTFS_LOG=<file>      one line per call, written with a raw write(2) before
 *                        and after the call so that it survives SIGKILL:
 *                        "<N> <kind> <path> <size> <result> <errno> <hex|->"
 *                        (hex = the whole buffer handed to write())
 *   RTFS_KILL_AT=N       raise SIGKILL just before the N-th call
 *   RTFS_FAULT_AT=N      make the N-th call fail with errno RTFS_FAULT_ERRNO
 *                        (default ENOSPC=28) without performing it, or, with
 *                        RTFS_FAULT_SHORT=c, perform it only for c bytes/items
 *                        and return c (write, fwrite, fread)
 *   RTFS_READDIR_ORDER=sorted|reverse   enumeration order of in-scope dirs
 */
#define _GNU_SOURCE
#include <dirent.h>
#include <dlfcn.h>
#include <errno.h>
#include <fcntl.h>
#include <pthread.h>
#include <signal.h>
#include <stdarg.h>
#include <stdio.h>
#include <stdio_ext.h>
#include <stdlib.h>
#include <string.h>
#include <sys/stat.h>
#include <sys/syscall.h>
#include <unistd.h>

#define MAXT 256

static pthread_mutex_t mu = PTHREAD_MUTEX_INITIALIZER;
static int inited = 0;
static long counter = 0;
static long kill_at = -1, fault_at = -1, fault_short = -1;
static int fault_errno = 28;
static int logfd = -1;
static const char *scope = "rtfs_";
static int rd_order = 0; /* 0 native, 1 sorted, 2 reverse */

static struct { int fd; char path[512]; } fds[MAXT];
static struct { FILE *f; char path[512]; } files[MAXT];
struct dslot {
	DIR *d;
	char path[512];
	int loaded, n, pos;
	struct dirent ents[64];
};
static struct dslot dirs[MAXT];

static int (*r_mkdir)(const char *, mode_t);
static int (*r_open)(const char *, int, ...);
static ssize_t (*r_write)(int, const void *, size_t);
static int (*r_close)(int);
static FILE *(*r_fopen)(const char *, const char *);
static int (*r_fputs)(const char *, FILE *);
static size_t (*r_fwrite)(const void *, size_t, size_t, FILE *);
static size_t (*r_fread)(void *, size_t, size_t, FILE *);
static int (*r_fclose)(FILE *);
static DIR *(*r_opendir)(const char *);
static struct dirent *(*r_readdir)(DIR *);
static int (*r_closedir)(DIR *);
static int (*r_remove)(const char *);
static int (*r_unlink)(const char *);
static int (*r_rmdir)(const char *);
static int (*r_rename)(const char *, const char *);

static long envl(const char *k, long def)
{
	const char *e = getenv(k);
	return (e && *e) ? atol(e) : def;
}

static void init(void)
{
	if (inited)
		return;
	inited = 1;
	r_mkdir = dlsym(RTLD_NEXT, "mkdir");
	r_open = dlsym(RTLD_NEXT, "open");
	r_write = dlsym(RTLD_NEXT, "write");
	r_close = dlsym(RTLD_NEXT, "close");
	r_fopen = dlsym(RTLD_NEXT, "fopen");
	r_fputs = dlsym(RTLD_NEXT, "fputs");
	r_fwrite = dlsym(RTLD_NEXT, "fwrite");
	r_fread = dlsym(RTLD_NEXT, "fread");
	r_fclose = dlsym(RTLD_NEXT, "fclose");
	r_opendir = dlsym(RTLD_NEXT, "opendir");
	r_readdir = dlsym(RTLD_NEXT, "readdir");
	r_closedir = dlsym(RTLD_NEXT, "closedir");
	r_remove = dlsym(RTLD_NEXT, "remove");
	r_unlink = dlsym(RTLD_NEXT, "unlink");
	r_rmdir = dlsym(RTLD_NEXT, "rmdir");
	r_rename = dlsym(RTLD_NEXT, "rename");
	kill_at = envl("RTFS_KILL_AT", -1);
	fault_at = envl("RTFS_FAULT_AT", -1);
	fault_short = envl("RTFS_FAULT_SHORT", -1);
	fault_errno = (int) envl("RTFS_FAULT_ERRNO", 28);
	if (getenv("RTFS_SCOPE"))
		scope = getenv("RTFS_SCOPE");
	const char *o = getenv("RTFS_READDIR_ORDER");
	if (o && strcmp(o, "sorted") == 0)
		rd_order = 1;
	else if (o && strcmp(o, "reverse") == 0)
		rd_order = 2;
	const char *lp = getenv("RTFS_LOG");
	if (lp && *lp)
		logfd = (int) syscall(SYS_open, lp, O_WRONLY | O_CREAT | O_APPEND, 0644);
	for (int i = 0; i < MAXT; i++)
		fds[i].fd = -1;
}

static int in_scope(const char *p)
{
	return p && strncmp(p, scope, strlen(scope)) == 0;
}

static const char *fd_path(int fd)
{
	for (int i = 0; i < MAXT; i++)
		if (fds[i].fd == fd)
			return fds[i].path;
	return NULL;
}

static const char *file_path(FILE *f)
{
	for (int i = 0; i < MAXT; i++)
		if (files[i].f == f && f)
			return files[i].path;
	return NULL;
}

static struct dslot *dir_slot(DIR *d)
{
	for (int i = 0; i < MAXT; i++)
		if (dirs[i].d == d && d)
			return &dirs[i];
	return NULL;
}

static void logline(long n, const char *kind, const char *path, long size, long res, int en,
		const void *data, size_t dlen)
{
	if (logfd < 0)
		return;
	static __thread char buf[70000];
	int k = snprintf(buf, 600, "%ld %s %s %ld %ld %d ", n, kind, path ? path : "-", size, res, en);
	if (data && dlen > 0 && dlen <= 32768) {
		static const char hx[] = "0123456789abcdef";
		const unsigned char *p = data;
		for (size_t i = 0; i < dlen; i++) {
			buf[k++] = hx[p[i] >> 4];
			buf[k++] = hx[p[i] & 15];
		}
	} else {
		buf[k++] = '-';
	}
	buf[k++] = '\n';
	syscall(SYS_write, logfd, buf, (size_t) k);
}

/* Takes the lock, assigns the sequence number, kills if asked.
 * Returns the number; *fault = 1 if this call must fail. */
static long enter(const char *kind, const char *path, long size, int *fault)
{
	pthread_mutex_lock(&mu);
	long n = ++counter;
	if (n == kill_at) {
		logline(n, "KILL", path, size, 0, 0, NULL, 0);
		syscall(SYS_kill, getpid(), SIGKILL);
		for (;;)
			pause();
	}
	*fault = (n == fault_at);
	(void) kind;
	return n;
}

static void leave(long n, const char *kind, const char *path, long size, long res, int en,
		const void *data, size_t dlen)
{
	logline(n, kind, path, size, res, en, data, dlen);
	pthread_mutex_unlock(&mu);
}

int mkdir(const char *path, mode_t mode)
{
	init();
	if (!in_scope(path))
		return r_mkdir(path, mode);
	int fault;
	long n = enter("mkdir", path, 0, &fault);
	int r, en;
	if (fault) {
		r = -1;
		en = fault_errno;
	} else {
		errno = 0;
		r = r_mkdir(path, mode);
		en = errno;
	}
	leave(n, "mkdir", path, 0, r, r ? en : 0, NULL, 0);
	errno = en;
	return r;
}

int open(const char *path, int flags, ...)
{
	init();
	mode_t mode = 0;
	if (flags & O_CREAT) {
		va_list ap;
		va_start(ap, flags);
		mode = (mode_t) va_arg(ap, int);
		va_end(ap);
	}
	if (!in_scope(path))
		return r_open(path, flags, mode);
	int fault;
	long n = enter("open", path, 0, &fault);
	int r, en;
	if (fault) {
		r = -1;
		en = fault_errno;
	} else {
		errno = 0;
		r = r_open(path, flags, mode);
		en = errno;
		if (r >= 0) {
			for (int i = 0; i < MAXT; i++)
				if (fds[i].fd == -1) {
					fds[i].fd = r;
					snprintf(fds[i].path, sizeof(fds[i].path), "%s", path);
					break;
				}
		}
	}
	leave(n, "open", path, 0, r >= 0 ? 0 : -1, r >= 0 ? 0 : en, NULL, 0);
	errno = en;
	return r;
}

ssize_t write(int fd, const void *buf, size_t count)
{
	init();
	const char *p = fd_path(fd);
	if (!p)
		return r_write(fd, buf, count);
	int fault;
	long n = enter("write", p, (long) count, &fault);
	ssize_t r;
	int en = 0;
	if (fault && fault_short >= 0 && (size_t) fault_short < count) {
		r = r_write(fd, buf, (size_t) fault_short);
		en = errno;
	} else if (fault && fault_short < 0) {
		r = -1;
		en = fault_errno;
	} else {
		errno = 0;
		r = r_write(fd, buf, count);
		en = errno;
	}
	leave(n, "write", p, (long) count, (long) r, r < 0 ? en : 0, buf, count);
	errno = en;
	return r;
}

/* bulk transfers onto an in-scope descriptor: same faults as write() (error, or only the first c bytes) */
#include <sys/sendfile.h>
ssize_t sendfile(int out_fd, int in_fd, off_t *offset, size_t count)
{
	static ssize_t (*real)(int, int, off_t *, size_t);
	if (!real)
		real = (ssize_t (*)(int, int, off_t *, size_t)) dlsym(RTLD_NEXT, "sendfile");
	init();
	const char *p = fd_path(out_fd);
	if (!p)
		return real(out_fd, in_fd, offset, count);
	int fault;
	long n = enter("sendfile", p, (long) count, &fault);
	ssize_t r;
	int en = 0;
	if (fault && fault_short >= 0 && (size_t) fault_short < count) {
		r = real(out_fd, in_fd, offset, (size_t) fault_short);
		en = errno;
	} else if (fault && fault_short < 0) {
		r = -1;
		en = fault_errno;
	} else {
		errno = 0;
		r = real(out_fd, in_fd, offset, count);
		en = errno;
	}
	leave(n, "sendfile", p, (long) count, (long) r, r < 0 ? en : 0, NULL, 0);
	errno = en;
	return r;
}

ssize_t copy_file_range(int in_fd, off_t *in_off, int out_fd, off_t *out_off, size_t count, unsigned int flags)
{
	static ssize_t (*real)(int, off_t *, int, off_t *, size_t, unsigned int);
	if (!real)
		real = (ssize_t (*)(int, off_t *, int, off_t *, size_t, unsigned int)) dlsym(RTLD_NEXT, "copy_file_range");
	init();
	const char *p = fd_path(out_fd);
	if (!p)
		return real(in_fd, in_off, out_fd, out_off, count, flags);
	int fault;
	long n = enter("copy_file_range", p, (long) count, &fault);
	ssize_t r;
	int en = 0;
	if (fault && fault_short >= 0 && (size_t) fault_short < count) {
		r = real(in_fd, in_off, out_fd, out_off, (size_t) fault_short, flags);
		en = errno;
	} else if (fault && fault_short < 0) {
		r = -1;
		en = fault_errno;
	} else {
		errno = 0;
		r = real(in_fd, in_off, out_fd, out_off, count, flags);
		en = errno;
	}
	leave(n, "copy_file_range", p, (long) count, (long) r, r < 0 ? en : 0, NULL, 0);
	errno = en;
	return r;
}

ssize_t pwrite(int fd, const void *buf, size_t count, off_t off)
{
	static ssize_t (*real)(int, const void *, size_t, off_t);
	if (!real)
		real = (ssize_t (*)(int, const void *, size_t, off_t)) dlsym(RTLD_NEXT, "pwrite");
	init();
	const char *p = fd_path(fd);
	if (!p)
		return real(fd, buf, count, off);
	int fault;
	long n = enter("pwrite", p, (long) count, &fault);
	ssize_t r;
	int en = 0;
	if (fault && fault_short >= 0 && (size_t) fault_short < count) {
		r = real(fd, buf, (size_t) fault_short, off);
		en = errno;
	} else if (fault && fault_short < 0) {
		r = -1;
		en = fault_errno;
	} else {
		errno = 0;
		r = real(fd, buf, count, off);
		en = errno;
	}
	leave(n, "pwrite", p, (long) count, (long) r, r < 0 ? en : 0, buf, count);
	errno = en;
	return r;
}

int close(int fd)
{
	init();
	const char *p = fd_path(fd);
	if (!p)
		return r_close(fd);
	char path[512];
	snprintf(path, sizeof(path), "%s", p);
	int fault;
	long n = enter("close", path, 0, &fault);
	int r = r_close(fd);
	int en = errno;
	for (int i = 0; i < MAXT; i++)
		if (fds[i].fd == fd)
			fds[i].fd = -1;
	if (fault) {
		r = -1;
		en = fault_errno;
	}
	leave(n, "close", path, 0, r, r ? en : 0, NULL, 0);
	errno = en;
	return r;
}

FILE *fopen(const char *path, const char *mode)
{
	init();
	if (!in_scope(path))
		return r_fopen(path, mode);
	const char *kind = (mode[0] == 'r') ? "fopen_r" : "fopen_w";
	int fault;
	long n = enter(kind, path, 0, &fault);
	FILE *f = NULL;
	int en;
	if (fault) {
		en = fault_errno;
	} else {
		errno = 0;
		f = r_fopen(path, mode);
		en = errno;
		if (f) {
			for (int i = 0; i < MAXT; i++)
				if (files[i].f == NULL) {
					files[i].f = f;
					snprintf(files[i].path, sizeof(files[i].path), "%s", path);
					break;
				}
		}
	}
	leave(n, kind, path, 0, f ? 0 : -1, f ? 0 : en, NULL, 0);
	errno = en;
	return f;
}

int fputs(const char *s, FILE *f)
{
	init();
	const char *p = file_path(f);
	if (!p)
		return r_fputs(s, f);
	int fault;
	size_t len = strlen(s);
	long n = enter("fputs", p, (long) len, &fault);
	int r, en = 0;
	if (fault) {
		r = EOF;
		en = fault_errno;
		f->_flags |= 0x20; /* _IO_ERR_SEEN */
	} else {
		errno = 0;
		r = r_fputs(s, f);
		en = errno;
	}
	leave(n, "fputs", p, (long) len, r == EOF ? -1 : 0, r == EOF ? en : 0, NULL, 0);
	errno = en;
	return r;
}

size_t fwrite(const void *ptr, size_t size, size_t nmemb, FILE *f)
{
	init();
	const char *p = file_path(f);
	if (!p)
		return r_fwrite(ptr, size, nmemb, f);
	int fault;
	long n = enter("fwrite", p, (long) (size * nmemb), &fault);
	size_t r;
	int en = 0;
	if (fault && fault_short >= 0 && (size_t) fault_short < nmemb) {
		r = r_fwrite(ptr, size, (size_t) fault_short, f);
		en = fault_errno;
		f->_flags |= 0x20;
	} else if (fault && fault_short < 0) {
		r = 0;
		en = fault_errno;
		f->_flags |= 0x20;
	} else {
		errno = 0;
		r = r_fwrite(ptr, size, nmemb, f);
		en = errno;
	}
	leave(n, "fwrite", p, (long) (size * nmemb), (long) r, r != nmemb ? en : 0, NULL, 0);
	errno = en;
	return r;
}

size_t fread(void *ptr, size_t size, size_t nmemb, FILE *f)
{
	init();
	const char *p = file_path(f);
	if (!p)
		return r_fread(ptr, size, nmemb, f);
	int fault;
	long n = enter("fread", p, (long) (size * nmemb), &fault);
	size_t r;
	int en = 0;
	if (fault && fault_short >= 0 && (size_t) fault_short < nmemb) {
		r = r_fread(ptr, size, (size_t) fault_short, f);
		en = fault_errno;
		f->_flags |= 0x20;
	} else if (fault && fault_short < 0) {
		r = 0;
		en = fault_errno;
		f->_flags |= 0x20;
	} else {
		errno = 0;
		r = r_fread(ptr, size, nmemb, f);
		en = errno;
	}
	leave(n, "fread", p, (long) (size * nmemb), (long) r, (fault) ? en : 0, NULL, 0);
	errno = en;
	return r;
}

int fclose(FILE *f)
{
	init();
	const char *p = file_path(f);
	if (!p)
		return r_fclose(f);
	char path[512];
	snprintf(path, sizeof(path), "%s", p);
	int fault;
	long n = enter("fclose", path, 0, &fault);
	int r, en;
	for (int i = 0; i < MAXT; i++)
		if (files[i].f == f)
			files[i].f = NULL;
	if (fault) {
		/* a failing fclose is a failing final flush: the buffered bytes are lost */
		__fpurge(f);
		r_fclose(f);
		r = EOF;
		en = fault_errno;
	} else {
		errno = 0;
		r = r_fclose(f);
		en = errno;
	}
	leave(n, "fclose", path, 0, r == 0 ? 0 : -1, r == 0 ? 0 : en, NULL, 0);
	errno = en;
	return r;
}

DIR *opendir(const char *path)
{
	init();
	if (!in_scope(path))
		return r_opendir(path);
	int fault;
	long n = enter("opendir", path, 0, &fault);
	DIR *d = NULL;
	int en;
	if (fault) {
		en = fault_errno;
	} else {
		errno = 0;
		d = r_opendir(path);
		en = errno;
		if (d) {
			for (int i = 0; i < MAXT; i++)
				if (dirs[i].d == NULL) {
					dirs[i].d = d;
					dirs[i].loaded = 0;
					dirs[i].n = dirs[i].pos = 0;
					snprintf(dirs[i].path, sizeof(dirs[i].path), "%s", path);
					break;
				}
		}
	}
	leave(n, "opendir", path, 0, d ? 0 : -1, d ? 0 : en, NULL, 0);
	errno = en;
	return d;
}

static int cmp_ent(const void *a, const void *b)
{
	return strcmp(((const struct dirent *) a)->d_name, ((const struct dirent *) b)->d_name);
}

struct dirent *readdir(DIR *d)
{
	init();
	struct dslot *s = dir_slot(d);
	if (!s)
		return r_readdir(d);
	int fault;
	long n = enter("readdir", s->path, 0, &fault);
	struct dirent *e = NULL;
	int en = 0;
	if (fault) {
		en = fault_errno;
	} else if (rd_order == 0) {
		errno = 0;
		e = r_readdir(d);
		en = errno;
	} else {
		if (!s->loaded) {
			struct dirent *x;
			while (s->n < 64 && (x = r_readdir(d)) != NULL)
				s->ents[s->n++] = *x;
			qsort(s->ents, (size_t) s->n, sizeof(s->ents[0]), cmp_ent);
			if (rd_order == 2)
				for (int i = 0; i < s->n / 2; i++) {
					struct dirent t = s->ents[i];
					s->ents[i] = s->ents[s->n - 1 - i];
					s->ents[s->n - 1 - i] = t;
				}
			s->loaded = 1;
		}
		en = 0;
		if (s->pos < s->n)
			e = &s->ents[s->pos++];
	}
	char name[300];
	snprintf(name, sizeof(name), "%s/%s", s->path, e ? e->d_name : "<end>");
	leave(n, "readdir", name, 0, e ? 0 : -1, fault ? en : 0, NULL, 0);
	if (e == NULL)
		errno = en;
	return e;
}

int closedir(DIR *d)
{
	init();
	struct dslot *s = dir_slot(d);
	if (!s)
		return r_closedir(d);
	char path[512];
	snprintf(path, sizeof(path), "%s", s->path);
	int fault;
	long n = enter("closedir", path, 0, &fault);
	s->d = NULL;
	int r = r_closedir(d);
	int en = errno;
	if (fault) {
		r = -1;
		en = fault_errno;
	}
	leave(n, "closedir", path, 0, r, r ? en : 0, NULL, 0);
	errno = en;
	return r;
}

static int path_call(const char *kind, int (*fn)(const char *), const char *path)
{
	int fault;
	long n = enter(kind, path, 0, &fault);
	int r, en;
	if (fault) {
		r = -1;
		en = fault_errno;
	} else {
		errno = 0;
		r = fn(path);
		en = errno;
	}
	leave(n, kind, path, 0, r, r ? en : 0, NULL, 0);
	errno = en;
	return r;
}

int remove(const char *path)
{
	init();
	if (!in_scope(path))
		return r_remove(path);
	return path_call("remove", r_remove, path);
}

int unlink(const char *path)
{
	init();
	if (!in_scope(path))
		return r_unlink(path);
	return path_call("remove", r_unlink, path);
}

int rmdir(const char *path)
{
	init();
	if (!in_scope(path))
		return r_rmdir(path);
	return path_call("rmdir", r_rmdir, path);
}

int rename(const char *a, const char *b)
{
	init();
	if (!in_scope(a) && !in_scope(b))
		return r_rename(a, b);
	int fault;
	long n = enter("rename", a, 0, &fault);
	int r, en;
	if (fault) {
		r = -1;
		en = fault_errno;
	} else {
		errno = 0;
		r = r_rename(a, b);
		en = errno;
	}
	leave(n, "rename", a, 0, r, r ? en : 0, NULL, 0);
	errno = en;
	return r;
}
