/* LD_PRELOAD shim: pwrite() and write() on regular files transfer at most SHORTIO_MAX bytes per call
 * (a partial write is what POSIX allows any such call to do).  Used by the C16 check to see that
 * ovnisort's result does not depend on how the kernel chops its writes. */
#define _GNU_SOURCE
#include <dlfcn.h>
#include <stdio.h>
#include <stdlib.h>
#include <string.h>
#include <sys/stat.h>
#include <sys/types.h>
#include <unistd.h>

static size_t cap(int fd, size_t n)
{
	static long max = -2;
	if (max == -2) {
		const char *e = getenv("SHORTIO_MAX");
		max = e ? atol(e) : -1;
	}
	struct stat st;
	if (max <= 0 || fstat(fd, &st) != 0 || !S_ISREG(st.st_mode))
		return n;
	/* only the stream files of a trace */
	char link[64], path[4096];
	snprintf(link, sizeof(link), "/proc/self/fd/%d", fd);
	ssize_t k = readlink(link, path, sizeof(path) - 1);
	if (k < 10)
		return n;
	path[k] = 0;
	if (strcmp(path + k - 10, "stream.obs") != 0)
		return n;
	return n > (size_t) max ? (size_t) max : n;
}

ssize_t write(int fd, const void *buf, size_t n)
{
	static ssize_t (*real)(int, const void *, size_t);
	if (!real)
		real = (ssize_t (*)(int, const void *, size_t)) dlsym(RTLD_NEXT, "write");
	return real(fd, buf, cap(fd, n));
}

ssize_t pwrite(int fd, const void *buf, size_t n, off_t off)
{
	static ssize_t (*real)(int, const void *, size_t, off_t);
	if (!real)
		real = (ssize_t (*)(int, const void *, size_t, off_t)) dlsym(RTLD_NEXT, "pwrite");
	return real(fd, buf, cap(fd, n), off);
}

ssize_t pwrite64(int fd, const void *buf, size_t n, off_t off)
{
	static ssize_t (*real)(int, const void *, size_t, off_t);
	if (!real)
		real = (ssize_t (*)(int, const void *, size_t, off_t)) dlsym(RTLD_NEXT, "pwrite64");
	return real(fd, buf, cap(fd, n), off);
}
