/* In-process harness for C03 (clock-offset table): feeds table files to the REAL
 * clkoff_init/clkoff_load/clkoff_count/clkoff_get (src/emu/clkoff.c, from libemu.a) and applies the
 * entries to REAL looms (loom_init_begin of src/emu/loom.c, which derives loom.hostname) with the
 * REAL parse_clkoff_entry of src/emu/system.c (static there: system.c is included below, so that
 * the function under test is the one of the working tree).
 *
 *   T <table file as hex, or '-' for an empty file> <loom name hex>,<loom name hex>,...   ('-' = no loom)
 *
 * answer (same format as oracle/clkoff_drv.ml):
 *   load-fail
 *   n=<k> <index>:<name hex>:<(int64_t) median>;... | apply-fail          an entry was refused
 *   n=<k> <index>:<name hex>:<(int64_t) median>;... | offs=<o1>,<o2>,...    loom.clock_offset per loom
 * The loom names of one line must be distinct (the emulator creates one loom per name).
 * Every line runs in a forked child (a crash is an answer, not the end of the batch). */
#include <unistd.h>
#include <signal.h>
#include <sys/wait.h>
#include <inttypes.h>
#include "system.c"
#include "clkoff.h"

static int
hexval(int c)
{
	if (c >= '0' && c <= '9') return c - '0';
	if (c >= 'a' && c <= 'f') return c - 'a' + 10;
	return -1;
}

static size_t
unhex(const char *s, size_t n, char *out)
{
	size_t k = 0;
	for (size_t i = 0; i + 1 < n; i += 2)
		out[k++] = (char) (hexval(s[i]) * 16 + hexval(s[i + 1]));
	return k;
}

static void
run_line(char *line)
{
	char *tab = strtok(line, " \n");
	char *lm = strtok(NULL, " \n");
	if (tab == NULL || lm == NULL) {
		printf("?\n");
		return;
	}
	size_t tn = strcmp(tab, "-") == 0 ? 0 : strlen(tab);
	char *file = malloc(tn / 2 + 1);
	size_t fl = unhex(tab, tn, file);
	FILE *f = tmpfile();
	if (f == NULL) {
		printf("tmpfile?\n");
		return;
	}
	if (fl > 0 && fwrite(file, 1, fl, f) != fl) {
		printf("fwrite?\n");
		return;
	}
	rewind(f);

	struct clkoff table;
	clkoff_init(&table);
	if (clkoff_load(&table, f) != 0) {
		printf("load-fail\n");
		return;
	}
	int n = clkoff_count(&table);
	printf("n=%d ", n);
	for (int i = 0; i < n; i++) {
		struct clkoff_entry *e = clkoff_get(&table, i);
		printf("%s%" PRIi64 ":", i ? ";" : "", e->index);
		for (const char *p = e->name; *p; p++)
			printf("%02x", (unsigned char) *p);
		printf(":%" PRIi64, (int64_t) e->median);
	}

	/* the looms, as system.c create_loom does */
	struct loom *looms = NULL;
	struct loom *arr[256];
	int nl = 0;
	if (strcmp(lm, "-") != 0) {
		for (char *h = strtok(lm, ",\n"); h && nl < 256; h = strtok(NULL, ",\n")) {
			char name[PATH_MAX];
			size_t k = unhex(h, strlen(h), name);
			name[k] = '\0';
			struct loom *loom = calloc(1, sizeof(struct loom));
			if (loom_init_begin(loom, name) != 0) {
				printf(" | loom-init-fail\n");
				return;
			}
			DL_APPEND(looms, loom);
			arr[nl++] = loom;
		}
	}
	for (int i = 0; i < n; i++) {
		if (parse_clkoff_entry(looms, clkoff_get(&table, i)) != 0) {
			printf(" | apply-fail\n");
			return;
		}
	}
	printf(" | offs=");
	for (int i = 0; i < nl; i++)
		printf("%s%" PRIi64, i ? "," : "", arr[i]->clock_offset);
	printf("\n");
}

int
main(void)
{
	char *line = NULL;
	size_t cap = 0;
	freopen("/dev/null", "w", stderr);
	while (getline(&line, &cap, stdin) > 0) {
		if (line[0] != 'T' || line[1] != ' ') {
			printf("?\n");
			fflush(stdout);
			continue;
		}
		fflush(stdout);
		pid_t p = fork();
		if (p == 0) {
			alarm(10);
			run_line(line + 2);
			fflush(stdout);
			_exit(0);
		}
		int st = 0;
		waitpid(p, &st, 0);
		if (!(WIFEXITED(st) && WEXITSTATUS(st) == 0))
			printf(" crash(%d)\n", WIFSIGNALED(st) ? WTERMSIG(st) : -WEXITSTATUS(st));
		fflush(stdout);
	}
	return 0;
}
