/* Driver for the C02 metadata family: runs an op script of METADATA calls against the REAL libovni.so of
 * the check's build and reports what stream.json holds after every call.
 *
 *   usage: rtmeta_drv <scratch-dir>
 *   stdin, one request per line (syntax of oracle/rtmeta_drv.ml):
 *     V                                   -> ver <OVNI_LIB_VERSION hex> <OVNI_GIT_COMMIT hex> <OVNI_MODEL_VERSION hex>
 *     M <lv> <lc> <mv> <slot:op;slot:op;...> [tracedir]
 *        runs the program in a forked child (libovni keeps per-process state; die() aborts); every thread
 *        slot is its own pthread (the thread state of libovni is TLS); calls are executed one at a time in
 *        script order.  OVNI_TRACEDIR = tracedir if given, else <scratch>/c<k>/ovni.
 *     -> <end> <dir> <rec> <rec> ...      end ::= done | abort | crash:<status>
 *        rec ::= ok/<obs>/<files>         one per call that returned
 *        obs ::= - | i<int> | d<%.17g> | h<hex of the returned string>
 *        files ::= - | <tid>=<hex of stream.json>,...   the stream.json files whose content changed during the call
 *   A missing record at the end = the call that did not return (abort).
 *   Xe = emit OHx(-1,-1,0) and OHe, ovni_flush(), then ovni_thread_free() (so that the trace can be fed to ovniemu).
 *   C17 (mark metadata): m<type>,<flags>,<title hex|N> = ovni_mark_type, l<type>,<value>,<label hex|N> = ovni_mark_label
 *   (N = NULL pointer). */
#define _GNU_SOURCE
#include <errno.h>
#include <pthread.h>
#include <semaphore.h>
#include <signal.h>
#include <stdint.h>
#include <stdio.h>
#include <stdlib.h>
#include <string.h>
#include <sys/stat.h>
#include <sys/wait.h>
#include <unistd.h>
#include "ovni.h"

#define MAXSLOT 16
#define MAXTID 64

static int
hexval(int c)
{
	if (c >= '0' && c <= '9') return c - '0';
	if (c >= 'a' && c <= 'f') return c - 'a' + 10;
	if (c >= 'A' && c <= 'F') return c - 'A' + 10;
	return -1;
}

/* hex -> fresh NUL-terminated string; "z" = empty */
static char *
unhexs(const char *h, size_t hl)
{
	if (hl == 1 && h[0] == 'z') hl = 0;
	size_t n = hl / 2;
	char *out = malloc(n + 1);
	for (size_t i = 0; i < n; i++)
		out[i] = (char) (hexval(h[2 * i]) * 16 + hexval(h[2 * i + 1]));
	out[n] = 0;
	return out;
}

static void
puthex(FILE *f, const char *s, size_t n)
{
	if (n == 0) { fputc('z', f); return; }
	for (size_t i = 0; i < n; i++)
		fprintf(f, "%02x", (unsigned char) s[i]);
}

/* split "a,b,c" in place */
static int
split(char *s, char **out, int max)
{
	int n = 0;
	out[n++] = s;
	for (char *p = s; *p && n < max; p++)
		if (*p == ',') { *p = 0; out[n++] = p + 1; }
	return n;
}

static FILE *lg;
static char tracedir[4096];
static char loom[1024];
static long procpid;
static int have_proc;
static long tids[MAXTID];
static int ntids;
static char *cache[MAXTID];
static size_t cachelen[MAXTID];

static void
emit_simple(const char *mcv, int with_payload)
{
	struct ovni_ev ev;
	memset(&ev, 0, sizeof(ev));
	ovni_ev_set_mcv(&ev, mcv);
	if (with_payload) {
		int32_t cpu = -1, ctid = -1;
		uint64_t tag = 0;
		ovni_payload_add(&ev, (uint8_t *) &cpu, sizeof(cpu));
		ovni_payload_add(&ev, (uint8_t *) &ctid, sizeof(ctid));
		ovni_payload_add(&ev, (uint8_t *) &tag, sizeof(tag));
	}
	ovni_ev_set_clock(&ev, ovni_clock_now());
	ovni_ev_emit(&ev);
}

/* executes one call in the calling (worker) thread; writes the obs token */
static void
run_op(char *op)
{
	char *a[4];
	char *rest = op + 1;
	switch (op[0]) {
	case 'I': {
		split(rest, a, 3);
		char *l = unhexs(a[1], strlen(a[1]));
		snprintf(loom, sizeof(loom), "%s", l);
		procpid = strtol(a[2], NULL, 10);
		ovni_proc_init((int) strtol(a[0], NULL, 10), l, (int) procpid);
		have_proc = 1;
		fputc('-', lg);
		free(l);
		break;
	}
	case 'E': ovni_proc_fini(); fputc('-', lg); break;
	case 'T': ovni_thread_init((pid_t) strtol(rest, NULL, 10)); fputc('-', lg); break;
	case 'X':
		if (rest[0] == 'e') {
			emit_simple("OHx", 1);
			emit_simple("OHe", 0);
			ovni_flush();
		}
		ovni_thread_free();
		fputc('-', lg);
		break;
	case 'C': split(rest, a, 2); ovni_add_cpu((int) strtol(a[0], NULL, 10), (int) strtol(a[1], NULL, 10)); fputc('-', lg); break;
	case 'R': split(rest, a, 2); ovni_proc_set_rank((int) strtol(a[0], NULL, 10), (int) strtol(a[1], NULL, 10)); fputc('-', lg); break;
	case 'Q': {
		split(rest, a, 2);
		char *m = unhexs(a[0], strlen(a[0])), *v = unhexs(a[1], strlen(a[1]));
		ovni_thread_require(m, v);
		fputc('-', lg);
		free(m); free(v);
		break;
	}
	case 's': {
		split(rest, a, 2);
		char *k = unhexs(a[0], strlen(a[0])), *v = unhexs(a[1], strlen(a[1]));
		ovni_attr_set_str(k, v);
		fputc('-', lg);
		free(k); free(v);
		break;
	}
	case 'd': {
		split(rest, a, 2);
		char *k = unhexs(a[0], strlen(a[0]));
		ovni_attr_set_double(k, (double) strtoll(a[1], NULL, 10));
		fputc('-', lg);
		free(k);
		break;
	}
	case 'b': {
		split(rest, a, 2);
		char *k = unhexs(a[0], strlen(a[0]));
		ovni_attr_set_boolean(k, a[1][0] == '1');
		fputc('-', lg);
		free(k);
		break;
	}
	case 'j': {
		split(rest, a, 3);
		char *k = unhexs(a[0], strlen(a[0])), *v = unhexs(a[1], strlen(a[1]));
		ovni_attr_set_json(k, v);
		fputc('-', lg);
		free(k); free(v);
		break;
	}
	case 'h': {
		char *k = unhexs(rest, strlen(rest));
		fprintf(lg, "i%d", ovni_attr_has(k));
		free(k);
		break;
	}
	case 'g': {
		char *k = unhexs(rest + 1, strlen(rest + 1));
		if (rest[0] == 's') {
			const char *r = ovni_attr_get_str(k);
			fputc('h', lg); puthex(lg, r, strlen(r));
		} else if (rest[0] == 'd') {
			fprintf(lg, "d%.17g", ovni_attr_get_double(k));
		} else if (rest[0] == 'b') {
			fprintf(lg, "i%d", ovni_attr_get_boolean(k));
		} else {
			char *r = ovni_attr_get_json(k);
			fputc('h', lg); puthex(lg, r, strlen(r));
			free(r);
		}
		free(k);
		break;
	}
	case 'm': {
		split(rest, a, 3);
		char *t = strcmp(a[2], "N") == 0 ? NULL : unhexs(a[2], strlen(a[2]));
		ovni_mark_type((int32_t) strtoll(a[0], NULL, 10), (long) strtoll(a[1], NULL, 10), t);
		fputc('-', lg);
		free(t);
		break;
	}
	case 'l': {
		split(rest, a, 3);
		char *t = strcmp(a[2], "N") == 0 ? NULL : unhexs(a[2], strlen(a[2]));
		ovni_mark_label((int32_t) strtoll(a[0], NULL, 10), (int64_t) strtoll(a[1], NULL, 10), t);
		fputc('-', lg);
		free(t);
		break;
	}
	case 'f': ovni_attr_flush(); fputc('-', lg); break;
	case 'F': ovni_flush(); fputc('-', lg); break;
	default:
		_exit(78);
	}
}

struct worker {
	pthread_t th;
	sem_t go, done;
	char *op;
	int started;
};
static struct worker W[MAXSLOT];

static void *
worker_main(void *arg)
{
	struct worker *w = arg;
	for (;;) {
		sem_wait(&w->go);
		if (w->op == NULL)
			return NULL;
		run_op(w->op);
		sem_post(&w->done);
	}
}

static void
dump_changed(void)
{
	int any = 0;
	if (have_proc) {
		for (int i = 0; i < ntids; i++) {
			char path[8192];
			snprintf(path, sizeof(path), "%s/loom.%s/proc.%ld/thread.%ld/stream.json", tracedir, loom, procpid, tids[i]);
			FILE *f = fopen(path, "r");
			if (!f)
				continue;
			size_t cap = 1 << 16, n = 0;
			char *buf = malloc(cap);
			size_t r;
			while ((r = fread(buf + n, 1, cap - n, f)) > 0) {
				n += r;
				if (n == cap) { cap *= 2; buf = realloc(buf, cap); }
			}
			fclose(f);
			if (cache[i] && cachelen[i] == n && memcmp(cache[i], buf, n) == 0) {
				free(buf);
				continue;
			}
			free(cache[i]);
			cache[i] = buf;
			cachelen[i] = n;
			fprintf(lg, "%s%ld=", any ? "," : "", tids[i]);
			puthex(lg, buf, n);
			any = 1;
		}
	}
	if (!any)
		fputc('-', lg);
}

static void
child(const char *dir, char *ops)
{
	char path[4200];
	setenv("OVNI_TRACEDIR", tracedir, 1);
	unsetenv("OVNI_TMPDIR");
	unsetenv("OVNI_VERIF_EVBUF");
	snprintf(path, sizeof(path), "%s/stderr.txt", dir);
	freopen(path, "w", stderr);
	snprintf(path, sizeof(path), "%s/log", dir);
	lg = fopen(path, "w");
	if (!lg) _exit(79);

	/* the tids the script mentions (their files are watched) */
	for (char *p = ops; *p; ) {
		char *c = strchr(p, ':');
		if (!c) break;
		if (c[1] == 'T' && ntids < MAXTID) {
			long t = strtol(c + 2, NULL, 10);
			int seen = 0;
			for (int i = 0; i < ntids; i++) if (tids[i] == t) seen = 1;
			if (!seen) tids[ntids++] = t;
		}
		char *q = strchr(c, ';');
		if (!q) break;
		p = q + 1;
	}

	char *p = ops;
	while (*p) {
		char *q = strchr(p, ';');
		if (q) *q = 0;
		char *c = strchr(p, ':');
		if (!c) _exit(78);
		int slot = atoi(p);
		if (slot < 0 || slot >= MAXSLOT) _exit(78);
		struct worker *w = &W[slot];
		if (!w->started) {
			sem_init(&w->go, 0, 0);
			sem_init(&w->done, 0, 0);
			w->started = 1;
			if (pthread_create(&w->th, NULL, worker_main, w) != 0) _exit(80);
		}
		fputs(" ok/", lg);
		fflush(lg);
		w->op = c + 1;
		sem_post(&w->go);
		sem_wait(&w->done);
		fputc('/', lg);
		dump_changed();
		fflush(lg);
		if (!q) break;
		p = q + 1;
	}
	fclose(lg);
	_exit(0);
}

int
main(int argc, char **argv)
{
	if (argc < 2) {
		fprintf(stderr, "usage: rtmeta_drv <scratch-dir>\n");
		return 2;
	}
	char *line = NULL;
	size_t cap_line = 0;
	ssize_t len;
	long k = 0;
	while ((len = getline(&line, &cap_line, stdin)) > 0) {
		if (line[len - 1] == '\n') line[--len] = 0;
		if (strcmp(line, "V") == 0) {
			const char *v, *c;
			ovni_version_get(&v, &c);
			printf("ver ");
			puthex(stdout, v, strlen(v)); putchar(' ');
			puthex(stdout, c, strlen(c)); putchar(' ');
			puthex(stdout, OVNI_MODEL_VERSION, strlen(OVNI_MODEL_VERSION));
			putchar('\n');
			fflush(stdout);
			continue;
		}
		char *save = NULL;
		char *cmd = strtok_r(line, " ", &save);
		char *lv = strtok_r(NULL, " ", &save);
		char *lc = strtok_r(NULL, " ", &save);
		char *mv = strtok_r(NULL, " ", &save);
		char *ops = strtok_r(NULL, " ", &save);
		char *td = strtok_r(NULL, " ", &save);
		if (!cmd || strcmp(cmd, "M") != 0 || !lv || !lc || !mv || !ops) {
			printf("?\n");
			fflush(stdout);
			continue;
		}
		char dir[4096];
		snprintf(dir, sizeof(dir), "%s/c%ld", argv[1], k++);
		mkdir(dir, 0755);
		if (td) snprintf(tracedir, sizeof(tracedir), "%s", td);
		else snprintf(tracedir, sizeof(tracedir), "%s/ovni", dir);
		fflush(stdout);
		pid_t p = fork();
		if (p == 0)
			child(dir, ops);
		int st = 0;
		waitpid(p, &st, 0);
		if (WIFEXITED(st) && WEXITSTATUS(st) == 0) printf("done %s", dir);
		else if (WIFSIGNALED(st) && WTERMSIG(st) == SIGABRT) printf("abort %s", dir);
		else printf("crash:%d %s", st, dir);
		char path[4200];
		snprintf(path, sizeof(path), "%s/log", dir);
		FILE *f = fopen(path, "r");
		if (f) {
			int ch;
			while ((ch = fgetc(f)) != EOF)
				if (ch != '\n') putchar(ch);
			fclose(f);
		}
		putchar('\n');
		fflush(stdout);
	}
	free(line);
	return 0;
}
