/* Dumps the registered models (id char, name, version) as the compiled source has them. */
#include <stdio.h>
#include "models.c"
int main(void)
{
	for (int i = 0; models[i] != NULL; i++)
		printf("%d %s %s\n", models[i]->model, models[i]->name, models[i]->version);
	return 0;
}
