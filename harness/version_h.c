/* In-process harness for C14: runs the real version_parse / version_is_compatible
 * (src/include/version.h) and the real ovni_version_check_str (libovni) on the
 * inputs given on stdin, one per line, same protocol as oracle/version_drv.ml. */
#include <stdio.h>
#include <stdlib.h>
#include <string.h>
#include <unistd.h>
#include <sys/wait.h>
#include "common.h"
#include "version.h"
#include "ovni.h"

static char *unhex(const char *h)
{
	if (strcmp(h, "NULL") == 0) return NULL;
	if (strcmp(h, "-") == 0) return strdup("");
	size_t n = strlen(h) / 2;
	char *s = malloc(n + 1);
	for (size_t i = 0; i < n; i++) { unsigned v; sscanf(h + 2 * i, "%2x", &v); s[i] = (char) v; }
	s[n] = 0;
	return s;
}

int main(void)
{
	char line[4096], arg[4096];
	/* keep the library's diagnostics out of the way */
	freopen("/dev/null", "w", stderr);
	while (fgets(line, sizeof(line), stdin)) {
		int w[3], h[3];
		if (sscanf(line, "P %4000s", arg) == 1) {
			char *s = unhex(arg);
			int t[3] = {-7, -7, -7};
			if (version_parse(s, t) != 0) printf("none\n");
			else printf("%d %d %d\n", t[0], t[1], t[2]);
			free(s);
		} else if (sscanf(line, "C %4000s", arg) == 1) {
			char *s = unhex(arg);
			fflush(stdout);
			pid_t p = fork();
			if (p == 0) { ovni_version_check_str(s); _exit(0); }
			int st = 0; waitpid(p, &st, 0);
			if (WIFEXITED(st) && WEXITSTATUS(st) == 0) printf("ret\n");
			else if (WIFSIGNALED(st) && WTERMSIG(st) == SIGABRT) printf("die\n");
			else printf("crash %d\n", st);
			free(s);
		} else if (sscanf(line, "K %d %d %d %d %d %d", &w[0], &w[1], &w[2], &h[0], &h[1], &h[2]) == 6) {
			printf("%d\n", version_is_compatible(w, h));
		} else printf("?\n");
		fflush(stdout);
	}
	return 0;
}
