/* Driver for the rtfs engine (C09/C10): a small traced program using the REAL
 * libovni of the check's build.
 *
 *   rtfs_prog <seq|pth> <thread-spec>...
 *   thread-spec = tid:nflush:nev[:align[:tail]]
 *
 * proc_init("L", 77); every thread (its own pthread: libovni keeps the thread
 * state in TLS and a finished thread cannot be initialised again) does
 *   ovni_thread_init(tid); ovni_add_cpu for all threads' CPUs ; OHx ;
 *   nflush segments { nev pause/resume pairs ; last segment: OHe ; ovni_flush() }
 *   (nflush = 0: OHx, OHe are emitted but never flushed) ; ovni_thread_free()
 * then ovni_proc_fini().  With align > 0 the first segment is padded so that the
 * stream has exactly <align> bytes at the end of the last event of that segment.
 * tail = number of additional ovni_flush() calls after the last segment (each
 * writes the OF[ OF] pair left in the buffer by the previous flush).
 * seq: threads run one after another; pth: concurrently.
 * OVNI_TRACEDIR / OVNI_TMPDIR come from the environment.  Clocks are
 * ovni_clock_now() (libovni stamps its own OF[ OF] events with it), so stream
 * bytes differ between runs; the checks compare against the bytes the shim logs.
 */
#define _GNU_SOURCE
#include <pthread.h>
#include <stdint.h>
#include <stdio.h>
#include <stdlib.h>
#include <string.h>
#include "ovni.h"

struct tspec {
	int idx, tid, nflush, nev, align, tail;
};

static int nthreads;
static struct tspec specs[64];

static void
emit(const char *mcv, uint64_t *clk, const void *pl, int n, size_t *pos)
{
	struct ovni_ev ev;
	memset(&ev, 0, sizeof(ev));
	(void) clk;
	ovni_ev_set_clock(&ev, ovni_clock_now());
	ovni_ev_set_mcv(&ev, mcv);
	if (n > 0)
		ovni_payload_add(&ev, pl, n);
	ovni_ev_emit(&ev);
	*pos += (size_t) ovni_ev_size(&ev);
}

static void *
run_thread(void *arg)
{
	struct tspec *s = arg;
	uint64_t clk = 1000 + (uint64_t) s->idx * 100000;
	size_t pos = 8; /* stream header */

	ovni_thread_init(s->tid);
	for (int i = 0; i < nthreads; i++)
		ovni_add_cpu(i, i);

	struct {
		int32_t cpu, creator;
		uint64_t tag;
	} __attribute__((packed)) x = {s->idx, -1, 0};
	emit("OHx", &clk, &x, sizeof(x), &pos);

	if (s->nflush == 0)
		emit("OHe", &clk, NULL, 0, &pos);

	for (int j = 0; j < s->nflush; j++) {
		int last = (j == s->nflush - 1);
		for (int e = 0; e < s->nev; e++) {
			emit("OHp", &clk, NULL, 0, &pos);
			emit("OHr", &clk, NULL, 0, &pos);
		}
		if (j == 0 && s->align > 0) {
			size_t target = (size_t) s->align - (last ? 12 : 0);
			/* fillers: OHC (28 bytes), OAs (16 bytes), OHp OHr (24 bytes) */
			if (pos + 28 <= target && (target - pos) % 8 == 4) {
				struct {
					int32_t cpu, tid;
					uint64_t tag;
				} __attribute__((packed)) c = {s->idx, s->tid, 0};
				emit("OHC", &clk, &c, sizeof(c), &pos);
			}
			while (pos + 16 <= target && (target - pos) % 24 != 0) {
				int32_t cpu = s->idx;
				emit("OAs", &clk, &cpu, sizeof(cpu), &pos);
			}
			while (pos + 24 <= target) {
				emit("OHp", &clk, NULL, 0, &pos);
				emit("OHr", &clk, NULL, 0, &pos);
			}
			if (pos != target) {
				fprintf(stderr, "rtfs_prog: cannot align to %d (pos %zu)\n", s->align, pos);
				exit(3);
			}
		}
		if (last)
			emit("OHe", &clk, NULL, 0, &pos);
		ovni_flush();
		pos += 24; /* OF[ OF] left in the buffer */
	}

	for (int j = 0; j < s->tail; j++)
		ovni_flush();

	ovni_thread_free();
	return NULL;
}

int
main(int argc, char *argv[])
{
	if (argc < 3) {
		fprintf(stderr, "usage: rtfs_prog seq|pth tid:nflush:nev[:align[:tail]]...\n");
		return 2;
	}
	int conc = strcmp(argv[1], "pth") == 0;
	nthreads = argc - 2;
	for (int i = 0; i < nthreads; i++) {
		specs[i].idx = i;
		specs[i].align = 0;
		specs[i].tail = 0;
		if (sscanf(argv[i + 2], "%d:%d:%d:%d:%d", &specs[i].tid, &specs[i].nflush,
				    &specs[i].nev, &specs[i].align, &specs[i].tail) < 3) {
			fprintf(stderr, "bad thread spec %s\n", argv[i + 2]);
			return 2;
		}
	}

	ovni_version_check();
	ovni_proc_init(1, "L", 77);

	pthread_t th[64];
	for (int i = 0; i < nthreads; i++) {
		if (pthread_create(&th[i], NULL, run_thread, &specs[i]) != 0)
			return 4;
		if (!conc)
			pthread_join(th[i], NULL);
	}
	if (conc)
		for (int i = 0; i < nthreads; i++)
			pthread_join(th[i], NULL);

	ovni_proc_fini();
	return 0;
}
