/* In-process harness for C20.  Runs the REAL sort_replace / sort module (src/emu/sort.c,
 * linked from the libemu.a built out of /repo's working tree) and the REAL breakdown
 * wiring (static connect_cpu / select_tr / select_idle, obtained by #including
 * src/emu/nosv/breakdown.c, or src/emu/nanos6/breakdown.c with -DC20_NANOS6) on top of the
 * real bay / chan / mux.
 *
 * Line protocol (one answer line per input line, same as oracle/sortmod_drv.ml):
 *   K                         -> "K <ST_TASK_BODY> <ST_UNKNOWN_SS> <ST_PROGRESSING>"
 *   R old new n a0 .. a(n-1)  -> "ok b0 .. b(n-1)" | "die" | "oob"
 *   M n seg|seg|...           -> per propagate "o0 .. o(n-1) ; k1 k2 .." joined by " | "
 *        seg = "i=v,i=v,.." (possibly empty = "-"), v = N (null) | <int> | D<bits>
 *   W body unknown prog seg|seg|...  -> per propagate "tr tri values0 sel0 sel1 out0" joined by " | "
 *        seg = "S=v,T=v,I=v,.." writes to the CPU's subsystem / task type / idle channels;
 *        body unknown prog must be the constants printed by K (else "error constants")
 */
#define _GNU_SOURCE
#include <stdio.h>
#include <stdlib.h>
#include <string.h>
#include <unistd.h>
#include <inttypes.h>
#include <sys/wait.h>

#ifdef C20_NANOS6
#include "nanos6/breakdown.c"
#define MCPU struct nanos6_cpu
#else
#include "nosv/breakdown.c"
#define MCPU struct nosv_cpu
#endif

#include "bay.h"
#include "chan.h"
#include "mux.h"
#include "sort.h"
#include "track.h"
#include "value.h"

#define MAXN 4096

static char *line = NULL;
static size_t linecap = 0;

static struct value parse_value(const char *s)
{
	if (s[0] == 'N')
		return value_null();
	if (s[0] == 'D') {
		struct value v;
		memset(&v, 0, sizeof(v));
		v.type = VALUE_DOUBLE;
		v.i = (int64_t) strtoll(s + 1, NULL, 10);
		return v;
	}
	return value_int64((int64_t) strtoll(s, NULL, 10));
}

static void print_value(struct value v)
{
	if (v.type == VALUE_NULL) printf("N");
	else if (v.type == VALUE_INT64) printf("%" PRIi64, v.i);
	else printf("D%" PRIi64, v.i);
}

/* ------------------------------------------------------------------ R */
static void do_replace(char *args)
{
	char *save = NULL;
	char *tok = strtok_r(args, " \n", &save);
	int64_t old = strtoll(tok, NULL, 10);
	tok = strtok_r(NULL, " \n", &save);
	int64_t new = strtoll(tok, NULL, 10);
	tok = strtok_r(NULL, " \n", &save);
	int64_t n = strtoll(tok, NULL, 10);
	/* exact-size heap block so that tools like ASan see any overrun */
	int64_t *arr = malloc((size_t) (n > 0 ? n : 1) * sizeof(int64_t));
	for (int64_t i = 0; i < n; i++) {
		tok = strtok_r(NULL, " \n", &save);
		arr[i] = strtoll(tok, NULL, 10);
	}
	if (old == new) {
		/* the real function calls die(): observe it in a child */
		fflush(stdout);
		pid_t p = fork();
		if (p == 0) {
			if (freopen("/dev/null", "w", stderr) == NULL) _exit(3);
			sort_replace(arr, n, old, new);
			_exit(0);
		}
		int st = 0;
		waitpid(p, &st, 0);
		if (WIFSIGNALED(st) && WTERMSIG(st) == SIGABRT) printf("die\n");
		else printf("returned %d\n", st);
		free(arr);
		return;
	}
	/* Guard only: without an element >= old the first loop leaves the array (UB).
	 * The check never sends such a case to be compared; answer like the model. */
	int found = 0;
	for (int64_t i = 0; i < n; i++)
		if (arr[i] >= old) found = 1;
	if (!found) {
		printf("oob\n");
		free(arr);
		return;
	}
	sort_replace(arr, n, old, new);
	printf("ok");
	for (int64_t i = 0; i < n; i++)
		printf(" %" PRIi64, arr[i]);
	printf("\n");
	free(arr);
}

/* ------------------------------------------------------------------ M */
static int written[MAXN];
static int nwritten;

struct outrec { int idx; };

static int cb_out_emit(struct chan *chan, void *arg)
{
	(void) chan;
	struct outrec *r = arg;
	written[nwritten++] = r->idx;
	return 0;
}

static int cmp_int(const void *a, const void *b)
{
	return *(const int *) a - *(const int *) b;
}

/* applies "i=v,i=v" with the given channel lookup */
static int apply_sets(char *seg, struct chan *(*lookup)(const char *key, void *ctx), void *ctx)
{
	if (strcmp(seg, "-") == 0 || seg[0] == 0)
		return 0;
	char *save = NULL;
	for (char *w = strtok_r(seg, ",", &save); w; w = strtok_r(NULL, ",", &save)) {
		char *eq = strchr(w, '=');
		if (eq == NULL) return -1;
		*eq = 0;
		struct chan *c = lookup(w, ctx);
		if (c == NULL) return -1;
		if (chan_set(c, parse_value(eq + 1)) != 0) return -1;
	}
	return 0;
}

struct modctx { struct chan *inputs; int64_t n; };

static struct chan *lookup_input(const char *key, void *ctx)
{
	struct modctx *m = ctx;
	int64_t i = strtoll(key, NULL, 10);
	if (i < 0 || i >= m->n) return NULL;
	return &m->inputs[i];
}

static void do_module(char *args)
{
	char *sp = strchr(args, ' ');
	if (sp == NULL) { printf("?\n"); return; }
	*sp = 0;
	int64_t n = strtoll(args, NULL, 10);
	char *script = sp + 1;
	script[strcspn(script, "\n")] = 0;
	if (n < 1 || n > MAXN) { printf("?\n"); return; }

	/* same set-up as test/unit/sort.c, inputs left null like breakdown.tri */
	struct bay *bay = calloc(1, sizeof(struct bay));
	bay_init(bay);
	struct chan *inputs = calloc((size_t) n, sizeof(struct chan));
	for (int64_t i = 0; i < n; i++) {
		chan_init(&inputs[i], CHAN_SINGLE, "input.%" PRIi64, i);
		/* like a mux output (breakdown.tri): rewritable while dirty, duplicates allowed */
		chan_prop_set(&inputs[i], CHAN_DIRTY_WRITE, 1);
		chan_prop_set(&inputs[i], CHAN_ALLOW_DUP, 1);
		if (bay_register(bay, &inputs[i]) != 0) { printf("error register\n"); return; }
	}
	struct sort *sort = calloc(1, sizeof(struct sort));
	if (sort_init(sort, bay, n, "sort0") != 0) { printf("error sort_init\n"); return; }
	for (int64_t i = 0; i < n; i++)
		if (sort_set_input(sort, i, &inputs[i]) != 0) { printf("error sort_set_input\n"); return; }
	struct outrec *recs = calloc((size_t) n, sizeof(struct outrec));
	for (int64_t i = 0; i < n; i++) {
		recs[i].idx = (int) i;
		if (bay_add_cb(bay, BAY_CB_EMIT, sort_get_output(sort, i), cb_out_emit, &recs[i], 1) == NULL) {
			printf("error add_cb\n");
			return;
		}
	}

	struct modctx ctx = { inputs, n };
	int first = 1;
	char *save = NULL;
	for (char *seg = strtok_r(script, "|", &save); seg; seg = strtok_r(NULL, "|", &save)) {
		nwritten = 0;
		char *copy = strdup(seg);
		int rc = apply_sets(copy, lookup_input, &ctx);
		free(copy);
		if (rc != 0) { printf("%serror set", first ? "" : " | "); break; }
		if (bay_propagate(bay) != 0) { printf("%serror propagate", first ? "" : " | "); break; }
		if (!first) printf(" | ");
		first = 0;
		for (int64_t i = 0; i < n; i++) {
			struct value v;
			if (chan_read(sort_get_output(sort, i), &v) != 0) { printf("?"); continue; }
			if (i) printf(" ");
			print_value(v);
		}
		printf(" ;");
		qsort(written, (size_t) nwritten, sizeof(int), cmp_int);
		for (int k = 0; k < nwritten; k++)
			printf(" %d", written[k]);
	}
	printf("\n");
	/* everything is leaked on purpose: one small script per line, short-lived process */
}

/* ------------------------------------------------------------------ W */
struct wirectx { struct chan *ss, *tt, *idle; };

static struct chan *lookup_wire(const char *key, void *ctx)
{
	struct wirectx *w = ctx;
	switch (key[0]) {
		case 'S': return w->ss;
		case 'T': return w->tt;
		case 'I': return w->idle;
		default: return NULL;
	}
}

/* which input callback of a 2-input mux is enabled in the bay (-1: none).  mux->selected is
 * not used: mux_init leaves it 0 (memset) until the first cb_select although no input
 * callback is enabled yet. */
static int enabled_input(struct mux *mux)
{
	if (mux->inputs[0].cb->enabled && mux->inputs[1].cb->enabled) return 2;
	if (mux->inputs[0].cb->enabled) return 0;
	if (mux->inputs[1].cb->enabled) return 1;
	return -1;
}

static void do_wiring(char *args)
{
	long b = 0, u = 0, p = 0;
	int off = 0;
	if (sscanf(args, "%ld %ld %ld %n", &b, &u, &p, &off) < 3 || b != ST_TASK_BODY
			|| u != ST_UNKNOWN_SS || p != ST_PROGRESSING) {
		printf("error constants\n");
		return;
	}
	char *script = args + off;
	script[strcspn(script, "\n")] = 0;
	struct bay *bay = calloc(1, sizeof(struct bay));
	bay_init(bay);

	MCPU *mcpu = calloc(1, sizeof(MCPU));
	mcpu->m.bay = bay;
	mcpu->m.track = calloc(CH_MAX, sizeof(struct track));
	/* The CPU channels are outputs of tracking muxes in the emulator (mux_init sets these
	 * two properties on every mux output).  Register them in channel-enum order like
	 * model_cpu.c:init_chan does. */
	for (int i = 0; i < CH_MAX; i++) {
		struct chan *c = &mcpu->m.track[i].ch;
		chan_init(c, CHAN_SINGLE, "cpu0.ch%d", i);
		chan_prop_set(c, CHAN_DIRTY_WRITE, 1);
		chan_prop_set(c, CHAN_ALLOW_DUP, 1);
		if (bay_register(bay, c) != 0) { printf("error register\n"); return; }
	}
	if (create_cpu(bay, &mcpu->breakdown, 0) != 0) { printf("error create_cpu\n"); return; }
	struct sort *sort = calloc(1, sizeof(struct sort));
	if (sort_init(sort, bay, 1, "bd.sort") != 0) { printf("error sort_init\n"); return; }
	if (connect_cpu(bay, mcpu) != 0) { printf("error connect_cpu\n"); return; }
	if (sort_set_input(sort, 0, &mcpu->breakdown.tri) != 0) { printf("error sort_set_input\n"); return; }

	struct wirectx ctx = {
		&mcpu->m.track[CH_SUBSYSTEM].ch, &mcpu->m.track[CH_TYPE].ch, &mcpu->m.track[CH_IDLE].ch
	};
	int first = 1;
	char *save = NULL;
	for (char *seg = strtok_r(script, "|", &save); seg; seg = strtok_r(NULL, "|", &save)) {
		char *copy = strdup(seg);
		int rc = apply_sets(copy, lookup_wire, &ctx);
		free(copy);
		if (rc != 0) { printf("%serror set", first ? "" : " | "); break; }
		if (bay_propagate(bay) != 0) { printf("%serror propagate", first ? "" : " | "); break; }
		if (!first) printf(" | ");
		first = 0;
		struct value v;
		if (chan_read(&mcpu->breakdown.tr, &v) != 0) v = value_null();
		print_value(v);
		printf(" ");
		if (chan_read(&mcpu->breakdown.tri, &v) != 0) v = value_null();
		print_value(v);
		printf(" %" PRIi64 " %d %d ", sort->values[0],
				enabled_input(&mcpu->breakdown.mux0), enabled_input(&mcpu->breakdown.mux1));
		if (chan_read(sort_get_output(sort, 0), &v) != 0) v = value_null();
		print_value(v);
	}
	printf("\n");
}

int main(void)
{
	/* keep the emulator's diagnostics out of the way */
	if (freopen("/dev/null", "w", stderr) == NULL)
		return 3;
	while (getline(&line, &linecap, stdin) > 0) {
		if (line[0] == 'K') {
			printf("K %d %d %d\n", (int) ST_TASK_BODY, (int) ST_UNKNOWN_SS, (int) ST_PROGRESSING);
		} else if (line[0] == 'R' && line[1] == ' ') {
			do_replace(line + 2);
		} else if (line[0] == 'M' && line[1] == ' ') {
			do_module(line + 2);
		} else if (line[0] == 'W' && line[1] == ' ') {
			do_wiring(line + 2);
		} else {
			printf("?\n");
		}
		fflush(stdout);
	}
	return 0;
}
