/* In-process harness for C06 (bay layer).  Builds, with the REAL chan.c / bay.c / mux.c / track.c /
 * thread.c select functions / pv/prv.c linked from the libemu.a of /repo's working tree, the wiring
 * that system_connect + model_thread_create/connect + model_cpu_create/connect + model_pvt_connect_*
 * build for one model with K channels on T threads and C CPUs (the loops of thread_connect,
 * cpu_connect, model_thread.c:init_chan, track_connect_thread, model_cpu.c:connect_cpu and
 * model_pvt.c:connect_*_prv are replayed here call by call, because the originals need a loaded
 * trace), then applies batches of channel writes, each followed by bay_propagate, and prints the
 * complete observable state.  oracle/bay_drv.ml prints the same from coq/Emu/BayDefs.v.
 *
 * One script per input line, one answer line per script:
 *   B T C K | spec;spec;.. | batch ; batch ; ..
 *     spec  = "stack dup mode flags init cpudef"   (init / cpudef: N or int64)
 *     batch = "-" or space separated writes:
 *        a<t>=<v> i<t>=<v> s<t>=<v>     thread t: cpu_gindex / tid_active / state  chan_set
 *        c<c>.<w>=<v>                   cpu c channel w (0 nrunning 1 pid 2 tid 3 th_running 4 th_active) chan_set
 *        r<t>.<k>=<v> r<t>.<k>+<v> r<t>.<k>-<v>   raw channel k of thread t: chan_set / chan_push / chan_pop
 *   answer: segment " | " segment ...; the first segment is the state after the connect-time
 *   bay_propagate, then one per batch; a segment is "err" (script stops) or
 *     "ch v/last/dirty/n ... mx sel:e0e1.. ... th row:type:val ... cpu row:type:val ..."
 */
#define _GNU_SOURCE
#include <stdio.h>
#include <stdlib.h>
#include <string.h>
#include <inttypes.h>

#include "bay.h"
#include "chan.h"
#include "mux.h"
#include "track.h"
#include "thread.h"
#include "value.h"
#include "emu_prv.h"
#include "pv/prv.h"

#define MAXK 16
#define MAXT 16

struct spec {
	int stack, dup, mode;
	long flags;
	struct value init, cpudef;
};

struct world {
	int T, C, K;
	struct spec sp[MAXK];
	struct bay bay;
	struct chan *thch;   /* T*3 */
	struct chan *raw;    /* T*K */
	struct track *thtrk; /* T*K */
	struct chan *cpuch;  /* C*5 */
	struct track *cputrk;/* C*K */
	struct prv prv_th, prv_cpu;
	FILE *f_th, *f_cpu;
	char *buf_th, *buf_cpu;
	size_t len_th, len_cpu, off_th, off_cpu;
};

static struct value parse_value(const char *s)
{
	if (s[0] == 'N')
		return value_null();
	return value_int64((int64_t) strtoll(s, NULL, 10));
}

static void print_value(struct value v)
{
	if (v.type == VALUE_NULL) printf("N");
	else if (v.type == VALUE_INT64) printf("%" PRIi64, v.i);
	else printf("D%" PRIi64, v.i);
}

static void print_chan(struct chan *c)
{
	struct value v;
	if (chan_read(c, &v) != 0) { printf(" ?"); return; }
	printf(" ");
	print_value(v);
	printf("/");
	print_value(c->last_value);
	printf("/%d/%d", c->is_dirty, c->type == CHAN_STACK ? c->data.stack.n : 0);
}

static void print_mux(struct mux *m)
{
	printf(" %" PRIi64 ":", m->selected);
	for (int64_t i = 0; i < m->ninputs; i++)
		printf("%d", m->inputs[i].cb->enabled);
}

/* new PRV lines of one file: "2:0:1:1:row:time:type:value" -> " row0:type:value" */
static void print_prv(const char *tag, FILE *f, char **buf, size_t *len, size_t *off)
{
	fflush(f);
	printf(" %s", tag);
	char *p = *buf + *off;
	char *end = *buf + *len;
	while (p < end) {
		char *nl = memchr(p, '\n', (size_t) (end - p));
		if (nl == NULL) break;
		long row, type; long long tm, val;
		if (sscanf(p, "2:0:1:1:%ld:%lld:%ld:%lld", &row, &tm, &type, &val) == 4)
			printf(" %ld:%ld:%lld", row - 1, type, val);
		p = nl + 1;
	}
	*off = (size_t) (p - *buf);
}

static void dump(struct world *w)
{
	printf("ch");
	for (int t = 0; t < w->T; t++) {
		for (int i = 0; i < 3; i++) print_chan(&w->thch[t * 3 + i]);
		for (int k = 0; k < w->K; k++) print_chan(&w->raw[t * w->K + k]);
		for (int k = 0; k < w->K; k++) print_chan(&w->thtrk[t * w->K + k].ch);
	}
	for (int c = 0; c < w->C; c++) {
		for (int i = 0; i < 5; i++) print_chan(&w->cpuch[c * 5 + i]);
		for (int k = 0; k < w->K; k++) print_chan(&w->cputrk[c * w->K + k].ch);
	}
	printf(" mx");
	for (int t = 0; t < w->T; t++)
		for (int k = 0; k < w->K; k++)
			if (w->sp[k].mode != TRACK_TH_ANY)
				print_mux(&w->thtrk[t * w->K + k].mux);
	for (int c = 0; c < w->C; c++)
		for (int k = 0; k < w->K; k++)
			print_mux(&w->cputrk[c * w->K + k].mux);
	print_prv("th", w->f_th, &w->buf_th, &w->len_th, &w->off_th);
	print_prv("cpu", w->f_cpu, &w->buf_cpu, &w->len_cpu, &w->off_cpu);
}

static const char *th_name[3] = { "cpu_gindex", "tid_active", "state" };
static const int th_type[3] = { PRV_THREAD_CPU, PRV_THREAD_TID, PRV_THREAD_STATE };
static const long th_flags[3] = { PRV_NEXT, 0, PRV_SKIPDUP };
static const char *cpu_name[5] = { "nrunning", "pid_running", "tid_running", "th_running", "th_active" };
static const int cpu_type[5] = { PRV_CPU_NRUN, PRV_CPU_PID, PRV_CPU_TID, -1, -1 };
static const long cpu_flags[5] = { PRV_ZERO, 0, 0, 0, 0 };

static int build(struct world *w)
{
	int T = w->T, C = w->C, K = w->K;
	bay_init(&w->bay);
	w->thch = calloc((size_t) T * 3, sizeof(struct chan));
	w->raw = calloc((size_t) (T * K + 1), sizeof(struct chan));
	w->thtrk = calloc((size_t) (T * K + 1), sizeof(struct track));
	w->cpuch = calloc((size_t) C * 5 + 1, sizeof(struct chan));
	w->cputrk = calloc((size_t) (C * K + 1), sizeof(struct track));
	w->f_th = open_memstream(&w->buf_th, &w->len_th);
	w->f_cpu = open_memstream(&w->buf_cpu, &w->len_cpu);
	if (prv_open_file(&w->prv_th, T, w->f_th) != 0) return -1;
	if (prv_open_file(&w->prv_cpu, C, w->f_cpu) != 0) return -1;
	fflush(w->f_th); fflush(w->f_cpu);
	w->off_th = w->len_th; w->off_cpu = w->len_cpu;

	/* system_connect: thread_init_end + thread_connect, cpu_init_end + cpu_connect */
	for (int t = 0; t < T; t++) {
		for (int i = 0; i < 3; i++)
			chan_init(&w->thch[t * 3 + i], CHAN_SINGLE, "thread%d.%s", t, th_name[i]);
		chan_prop_set(&w->thch[t * 3 + 1], CHAN_IGNORE_DUP, 1);
		for (int i = 0; i < 3; i++) {
			struct chan *c = &w->thch[t * 3 + i];
			if (bay_register(&w->bay, c) != 0) return -1;
			if (prv_register(&w->prv_th, t, th_type[i], &w->bay, c, th_flags[i]) != 0) return -1;
		}
	}
	for (int c = 0; c < C; c++) {
		for (int i = 0; i < 5; i++) {
			chan_init(&w->cpuch[c * 5 + i], CHAN_SINGLE, "cpu%d.%s", c, cpu_name[i]);
			chan_prop_set(&w->cpuch[c * 5 + i], CHAN_IGNORE_DUP, 1);
		}
		for (int i = 0; i < 5; i++) {
			struct chan *ch = &w->cpuch[c * 5 + i];
			if (bay_register(&w->bay, ch) != 0) return -1;
			if (cpu_type[i] < 0) continue;
			if (prv_register(&w->prv_cpu, c, cpu_type[i], &w->bay, ch, cpu_flags[i]) != 0) return -1;
		}
	}
	/* model_thread_create: init_chan */
	for (int t = 0; t < T; t++) {
		for (int k = 0; k < K; k++) {
			struct chan *c = &w->raw[t * K + k];
			chan_init(c, w->sp[k].stack ? CHAN_STACK : CHAN_SINGLE, "m.thread%d.ch%d", t, k);
			chan_prop_set(c, CHAN_ALLOW_DUP, w->sp[k].dup);
			if (bay_register(&w->bay, c) != 0) return -1;
		}
		for (int k = 0; k < K; k++)
			if (track_init(&w->thtrk[t * K + k], &w->bay, TRACK_TYPE_TH, w->sp[k].mode, "m.thread%d.ch%d", t, k) != 0) return -1;
	}
	/* model_cpu_create: init_chan (CPU tracks are TRACK_TH_RUN; any other mode is refused by connect_cpu) */
	for (int c = 0; c < C; c++)
		for (int k = 0; k < K; k++)
			if (track_init(&w->cputrk[c * K + k], &w->bay, TRACK_TYPE_TH, TRACK_TH_RUN, "m.cpu%d.ch%d", c, k) != 0) return -1;
	/* model_thread_connect: track_connect_thread, then model_pvt_connect_thread */
	for (int t = 0; t < T; t++)
		if (K > 0 && track_connect_thread(&w->thtrk[t * K], &w->raw[t * K], &w->thch[t * 3 + 2], K) != 0) return -1;
	for (int t = 0; t < T; t++)
		for (int k = 0; k < K; k++) {
			struct chan *out = track_get_output(&w->thtrk[t * K + k]);
			if (prv_register(&w->prv_th, t, 100 + k, &w->bay, out, w->sp[k].flags) != 0) return -1;
		}
	/* model_cpu_connect: connect_cpu, then model_pvt_connect_cpu */
	for (int c = 0; c < C; c++)
		for (int k = 0; k < K; k++) {
			struct track *track = &w->cputrk[c * K + k];
			if (track_set_select(track, &w->cpuch[c * 5 + 3], NULL, T) != 0) return -1;
			for (int t = 0; t < T; t++)
				if (track_set_input(track, t, &w->raw[t * K + k]) != 0) return -1;
		}
	for (int c = 0; c < C; c++)
		for (int k = 0; k < K; k++) {
			struct chan *out = track_get_output(&w->cputrk[c * K + k]);
			if (prv_register(&w->prv_cpu, c, 100 + k, &w->bay, out, w->sp[k].flags) != 0) return -1;
		}
	/* the rest of the model's connect: mux_set_default, initial values */
	for (int k = 0; k < K; k++)
		if (!value_is_null(w->sp[k].cpudef))
			for (int c = 0; c < C; c++)
				mux_set_default(&w->cputrk[c * K + k].mux, w->sp[k].cpudef);
	for (int k = 0; k < K; k++)
		if (!value_is_null(w->sp[k].init))
			for (int t = 0; t < T; t++)
				if (chan_set(&w->raw[t * K + k], w->sp[k].init) != 0) return -1;
	/* emu_connect */
	if (bay_propagate(&w->bay) != 0) return -1;
	return 0;
}

static void destroy(struct world *w)
{
	/* the bay's own small allocations are left to the process exit */
	for (int i = 0; i < w->C * w->K; i++) free(w->cputrk[i].mux.inputs);
	for (int i = 0; i < w->T * w->K; i++) free(w->thtrk[i].mux.inputs);
	free(w->thch); free(w->raw); free(w->thtrk); free(w->cpuch); free(w->cputrk);
	fclose(w->f_th); fclose(w->f_cpu);
	free(w->buf_th); free(w->buf_cpu);
}

static int do_write(struct world *w, char *tok)
{
	int K = w->K;
	char kind = tok[0];
	char *p = tok + 1;
	long a = strtol(p, &p, 10), b = 0;
	if (*p == '.') b = strtol(p + 1, &p, 10);
	char op = *p++;
	struct value v = parse_value(p);
	struct chan *c = NULL;
	switch (kind) {
	case 'a': if (a < 0 || a >= w->T) return -1; c = &w->thch[a * 3 + 0]; break;
	case 'i': if (a < 0 || a >= w->T) return -1; c = &w->thch[a * 3 + 1]; break;
	case 's': if (a < 0 || a >= w->T) return -1; c = &w->thch[a * 3 + 2]; break;
	case 'c': if (a < 0 || a >= w->C || b < 0 || b >= 5) return -1; c = &w->cpuch[a * 5 + b]; break;
	case 'r': if (a < 0 || a >= w->T || b < 0 || b >= K) return -1; c = &w->raw[a * K + b]; break;
	default: return -1;
	}
	if (op == '=') return chan_set(c, v);
	if (op == '+') return chan_push(c, v);
	if (op == '-') return chan_pop(c, v);
	return -1;
}

static void run_script(char *line)
{
	struct world *w = calloc(1, sizeof(struct world));
	char *s1 = strchr(line, '|');
	if (s1 == NULL) { printf("bad\n"); free(w); return; }
	*s1++ = 0;
	char *s2 = strchr(s1, '|');
	if (s2 == NULL) { printf("bad\n"); free(w); return; }
	*s2++ = 0;
	if (sscanf(line, "B %d %d %d", &w->T, &w->C, &w->K) != 3 || w->K > MAXK || w->T > MAXT || w->T < 1) {
		printf("bad\n"); free(w); return;
	}
	char *save = NULL;
	int k = 0;
	for (char *sp = strtok_r(s1, ";", &save); sp && k < w->K; sp = strtok_r(NULL, ";", &save), k++) {
		char ini[64], def[64];
		if (sscanf(sp, "%d %d %d %ld %63s %63s", &w->sp[k].stack, &w->sp[k].dup, &w->sp[k].mode, &w->sp[k].flags, ini, def) != 6) {
			printf("bad\n"); free(w); return;
		}
		w->sp[k].init = parse_value(ini);
		w->sp[k].cpudef = parse_value(def);
	}
	if (build(w) != 0) {
		printf("err\n");
		destroy(w); free(w);
		return;
	}
	dump(w);
	save = NULL;
	for (char *b = strtok_r(s2, ";\n", &save); b; b = strtok_r(NULL, ";\n", &save)) {
		int failed = 0;
		char *sv2 = NULL;
		for (char *tok = strtok_r(b, " ", &sv2); tok; tok = strtok_r(NULL, " ", &sv2)) {
			if (tok[0] == '-' && tok[1] == 0) continue;
			if (do_write(w, tok) != 0) { failed = 1; break; }
		}
		if (!failed && bay_propagate(&w->bay) != 0) failed = 1;
		printf(" | ");
		if (failed) { printf("err"); break; }
		dump(w);
	}
	printf("\n");
	destroy(w);
	free(w);
}

int main(void)
{
	char *line = NULL;
	size_t cap = 0;
	/* the emulator reports every refusal on stderr */
	if (freopen("/dev/null", "w", stderr) == NULL) return 2;
	while (getline(&line, &cap, stdin) > 0) {
		if (line[0] == 'B') run_script(line);
		else printf("bad\n");
		fflush(stdout);
	}
	return 0;
}
