/* C11 driver: N pthreads run scripted programs against the REAL libovni and
 * really race (start barrier + scripted yields/spins).
 *
 * libovni's die() ends in abort().  This executable defines abort() itself, so
 * the library's call reaches the definition below (symbol interposition): the
 * calling thread is recorded as "refused at op k" and leaves the library with
 * longjmp back to its own top-level frame, the other threads keep running.
 * That is exactly the model's "die = the thread stops".
 *
 * usage: rtconc_drv <script>
 *   script lines:
 *     proc <app> <loom> <pid>
 *     main_init 0|1         main thread calls ovni_proc_init before the threads start
 *     main_fini 0|1         main thread calls ovni_proc_fini after joining them
 *     drop 0|1              setgid/setuid(65534) first when running as root
 *     thread <idx> <op> <op> ...
 *   ops: P proc_init | Q proc_fini | I<tid> thread_init | W<tid> thread_init retried until it
 *     is accepted (late joiner) | R<model>:<ver> require | C<i>:<p> add_cpu | K<r>:<n> set_rank |
 *     X<cpu> emit OHx | e emit OHe | M<type>:<value> ovni_mark_set | T<type>:<title> ovni_mark_type |
 *     F flush | AD<key>=<double> AS<key>=<str> AB<key>=<0|1> AJ<key>=<json> attr set | G attr_flush |
 *     Z thread_free | N bare ovni_clock_now | B second barrier | Y yield | S<n> spin | U<us> usleep | J (lockstep) wait until a thread entered ovni_proc_fini
 *     lockstep <seed>       serialised mode: exactly one thread runs at a time and the others wait; the
 *                           running thread may be switched (pseudo-randomly, from <seed>) at every libc call
 *                           the library makes that this executable interposes (strtol, strtod, snprintf,
 *                           open, fopen, fclose, write, mkdir) and between ops.  This makes windows of a few
 *                           instructions between two libc calls of one library function (hidden libc
 *                           state such as strtok's cursor, a static buffer filled by snprintf and used by
 *                           the next open) as wide as a whole run of the other threads, deterministically.
 * output: one line per thread  "t <idx> done=<ops completed> died=<op index|-1> retries=<n> why=<die() format>"
 *         then "main init=<ok|refused|none> fini=<ok|refused|none>"
 */
#define _GNU_SOURCE
#include <pthread.h>
#include <stdarg.h>
#include <sched.h>
#include <setjmp.h>
#include <stdatomic.h>
#include <stdint.h>
#include <stdio.h>
#include <stdlib.h>
#include <string.h>
#include <time.h>
#include <unistd.h>
#include <dlfcn.h>
#include <fcntl.h>
#include <sys/stat.h>
#include <sys/types.h>
#include "ovni.h"

#define MAXT 16
#define MAXOPS 4096

struct thr {
	int idx;
	int nops;
	char **ops;
	int done;          /* ops completed */
	int died;          /* index of the op inside which the library aborted, or -1 */
	long retries;
	const char *why;   /* format string of the die() that refused this thread */
	int pc;
	int retrying;
	jmp_buf top;
	jmp_buf retry;
	pthread_t th;
};

static struct thr T[MAXT];
static int nthreads;
static int app = 1, pid = 1;
static char loom[512] = "rtconc";
static int main_init, main_fini, drop;
static pthread_barrier_t start;
static atomic_int start_cnt, second_cnt;
static int nsecond;

/* spinning barrier: the waiters leave within nanoseconds of each other, which a futex wake-up
 * does not give; yields when the machine is oversubscribed */
static void ls_yield_fwd(void);
static void spin_barrier(atomic_int *cnt, int n)
{
	long spins = 0;
	atomic_fetch_add(cnt, 1);
	while (atomic_load(cnt) < n) {
		ls_yield_fwd();
		if (++spins % 20000 == 0)
			sched_yield();
	}
}
static _Thread_local struct thr *self;

/* ---- lockstep mode ---- */
static int lockstep;
static unsigned long long ls_rng;
static atomic_int ls_turn = -1;          /* slot (index in T) of the thread that may run */
static atomic_int ls_alive[MAXT];
static _Thread_local int ls_in;          /* re-entrancy guard: the scheduler itself calls libc */

static unsigned long long ls_next(void)
{
	ls_rng ^= ls_rng << 13; ls_rng ^= ls_rng >> 7; ls_rng ^= ls_rng << 17;
	return ls_rng;
}

/* called by the thread that holds the turn: hand it to some live thread (maybe itself) */
static void ls_pass(int me, int can_keep)
{
	int live[MAXT], n = 0;
	for (int i = 0; i < nthreads; i++)
		if (atomic_load(&ls_alive[i]) && (can_keep || i != me))
			live[n++] = i;
	if (n == 0) { atomic_store(&ls_turn, -2); return; }
	int nxt = live[ls_next() % (unsigned) n];
	if (can_keep && ls_next() % 3 != 0)       /* mostly keep running: long stretches with a few switches */
		nxt = me;
	atomic_store(&ls_turn, nxt);
}

static void ls_wait(int me)
{
	long spins = 0;
	while (atomic_load(&ls_turn) != me)
		if (++spins > 200)
			sched_yield();
}

/* a scheduling point of the running thread */
static void ls_yield(void);

static jmp_buf main_jb;
static int main_armed;

/* Interposed as well: vaerr() prints the die() message with vfprintf(stderr, fmt, ap); the
 * format string tells WHY the library refused (kept per thread, reported, and used by the
 * late joiner to retry only on "process not ready"). */
static _Thread_local const char *last_fmt;
int vfprintf(FILE *f, const char *fmt, va_list ap)
{
	char buf[4096];
	last_fmt = fmt;
	int n = vsnprintf(buf, sizeof(buf), fmt, ap);
	if (n > 0)
		fwrite(buf, 1, (size_t) n < sizeof(buf) ? (size_t) n : sizeof(buf) - 1, f);
	return n;
}

/* Interposed: reached by libovni's vdie(). Must not return. */
void abort(void)
{
	struct thr *t = self;
	if (t) {
		t->why = last_fmt;
		if (t->retrying && last_fmt && strcmp(last_fmt, "process not ready") == 0) {
			t->retries++;
			longjmp(t->retry, 1);
		}
		t->died = t->pc;
		longjmp(t->top, 1);
	}
	if (main_armed)
		longjmp(main_jb, 1);
	_exit(134);
}

static void ls_yield(void)
{
	struct thr *t = self;
	if (!lockstep || !t || ls_in)
		return;
	ls_in = 1;
	int me = (int) (t - T);
	ls_pass(me, 1);
	ls_wait(me);
	ls_in = 0;
}
static void ls_yield_fwd(void) { ls_yield(); }

static atomic_int in_fini;

/* hand the turn to some OTHER live thread; 0 when there is none */
static int ls_yield_away(void)
{
	struct thr *t = self;
	int me = (int) (t - T), others = 0;
	for (int i = 0; i < nthreads; i++)
		others += i != me && atomic_load(&ls_alive[i]);
	if (!others)
		return 0;
	ls_in = 1;
	ls_pass(me, 0);
	ls_wait(me);
	ls_in = 0;
	return 1;
}

/* ---- libc calls of the library that are scheduling points in lockstep mode ----
 * (left out of the ThreadSanitizer build, which has its own interceptors for them) */
#ifndef RTCONC_NO_LOCKSTEP
#define REAL(name) static __typeof__(name) *real; if (!real) real = (__typeof__(name) *) dlsym(RTLD_NEXT, #name)

long strtol(const char *s, char **end, int base)
{
	REAL(strtol);
	ls_yield();
	return real(s, end, base);
}

double strtod(const char *s, char **end)
{
	REAL(strtod);
	ls_yield();
	return real(s, end);
}

int snprintf(char *buf, size_t n, const char *fmt, ...)
{
	va_list ap;
	va_start(ap, fmt);
	int r = vsnprintf(buf, n, fmt, ap);
	va_end(ap);
	ls_yield();     /* after the buffer is filled, before it is used */
	return r;
}

int open(const char *path, int flags, ...)
{
	REAL(open);
	mode_t mode = 0;
	if (flags & O_CREAT) {
		va_list ap;
		va_start(ap, flags);
		mode = (mode_t) va_arg(ap, int);
		va_end(ap);
	}
	ls_yield();
	return real(path, flags, mode);
}

FILE *fopen(const char *path, const char *mode)
{
	REAL(fopen);
	ls_yield();
	return real(path, mode);
}

int fclose(FILE *f)
{
	REAL(fclose);
	ls_yield();
	return real(f);
}

ssize_t write(int fd, const void *buf, size_t n)
{
	REAL(write);
	ls_yield();
	return real(fd, buf, n);
}

int mkdir(const char *path, mode_t mode)
{
	REAL(mkdir);
	ls_yield();
	return real(path, mode);
}

/* ovni_proc_fini() empties the temporary directories with rmdir(2) between its two accesses to the process state */
int rmdir(const char *path)
{
	REAL(rmdir);
	ls_yield();
	return real(path);
}
#endif /* RTCONC_NO_LOCKSTEP */

static _Thread_local volatile unsigned long sink;

static void emit0(const char *mcv)
{
	struct ovni_ev ev;
	memset(&ev, 0, sizeof(ev));
	ovni_ev_set_clock(&ev, ovni_clock_now());
	ovni_ev_set_mcv(&ev, mcv);
	ovni_ev_emit(&ev);
}

static void emit_ohx(int32_t cpu)
{
	struct ovni_ev ev;
	int32_t creator = -1;
	uint64_t tag = 0;
	memset(&ev, 0, sizeof(ev));
	ovni_ev_set_clock(&ev, ovni_clock_now());
	ovni_ev_set_mcv(&ev, "OHx");
	ovni_payload_add(&ev, (uint8_t *) &cpu, sizeof(cpu));
	ovni_payload_add(&ev, (uint8_t *) &creator, sizeof(creator));
	ovni_payload_add(&ev, (uint8_t *) &tag, sizeof(tag));
	ovni_ev_emit(&ev);
}

static void run_op(struct thr *t, char *op)
{
	char *c, *q;
	switch (op[0]) {
	case 'P': ovni_proc_init(app, loom, pid); break;
	case 'Q': atomic_store(&in_fini, 1); ovni_proc_fini(); break;
	case 'J':
		/* lockstep only: give the turn away until some thread has entered ovni_proc_fini() (or nobody else is left) */
		while (lockstep && !atomic_load(&in_fini) && ls_yield_away())
			;
		break;
	case 'I': ovni_thread_init((pid_t) atoi(op + 1)); break;
	case 'W': {
		/* late joiner: a refused ovni_thread_init leaves no trace in the thread
		 * (the check precedes every write), so it may simply be tried again */
		struct timespec t0, t1;
		clock_gettime(CLOCK_MONOTONIC, &t0);
		t->retrying = 1;
		if (setjmp(t->retry) != 0) {
			ls_in = 0;
			ls_yield();
			clock_gettime(CLOCK_MONOTONIC, &t1);
			if (t1.tv_sec - t0.tv_sec >= 3) {
				t->retrying = 0;
				t->died = t->pc;
				longjmp(t->top, 1);
			}
		}
		ovni_thread_init((pid_t) atoi(op + 1));
		t->retrying = 0;
		break;
	}
	case 'R':
		c = strchr(op, ':'); *c = 0;
		ovni_thread_require(op + 1, c + 1);
		*c = ':';
		break;
	case 'C': c = strchr(op, ':'); ovni_add_cpu(atoi(op + 1), atoi(c + 1)); break;
	case 'K': c = strchr(op, ':'); ovni_proc_set_rank(atoi(op + 1), atoi(c + 1)); break;
	case 'X': emit_ohx(atoi(op + 1)); break;
	case 'e': emit0("OHe"); break;
	case 'M': c = strchr(op, ':'); ovni_mark_set(atoi(op + 1), atoll(c + 1)); break;
	case 'T':
		c = strchr(op, ':'); *c = 0;
		ovni_mark_type(atoi(op + 1), 0, c + 1);
		*c = ':';
		break;
	case 'F': ovni_flush(); break;
	case 'A':
		q = strchr(op, '='); *q = 0;
		if (op[1] == 'D') ovni_attr_set_double(op + 2, atof(q + 1));
		else if (op[1] == 'S') ovni_attr_set_str(op + 2, q + 1);
		else if (op[1] == 'B') ovni_attr_set_boolean(op + 2, atoi(q + 1));
		else if (op[1] == 'J') ovni_attr_set_json(op + 2, q + 1);
		*q = '=';
		break;
	case 'G': ovni_attr_flush(); break;
	case 'Z': ovni_thread_free(); break;
	case 'N': sink += ovni_clock_now(); break;
	case 'B': spin_barrier(&second_cnt, nsecond); break;
	case 'Y': sched_yield(); break;
	case 'S': { long n = atol(op + 1); for (long i = 0; i < n; i++) sink += (unsigned long) i; break; }
	case 'U': usleep((useconds_t) atoi(op + 1)); break;
	default: fprintf(stderr, "rtconc_drv: bad op %s\n", op); _exit(2);
	}
}

static void *body(void *arg)
{
	struct thr *t = arg;
	self = t;
	pthread_barrier_wait(&start);
	if (lockstep)
		ls_wait((int) (t - T));
	else
		spin_barrier(&start_cnt, nthreads);
	if (setjmp(t->top) == 0) {
		for (t->pc = 0; t->pc < t->nops; t->pc++) {
			run_op(t, t->ops[t->pc]);
			t->done++;
			ls_yield();
		}
	} else {
		ls_in = 0;
		/* refused inside op t->died: a thread blocked nobody may wait for */
		for (int k = t->died + 1; k < t->nops; k++)
			if (t->ops[k][0] == 'B')
				spin_barrier(&second_cnt, nsecond);
	}
	if (lockstep) {
		ls_in = 1;
		atomic_store(&ls_alive[t - T], 0);
		ls_pass((int) (t - T), 0);
	}
	self = NULL;
	return NULL;
}

int main(int argc, char **argv)
{
	if (argc != 2) { fprintf(stderr, "usage: rtconc_drv script\n"); return 2; }
	FILE *f = fopen(argv[1], "r");
	if (!f) { perror(argv[1]); return 2; }
	static char line[1 << 20];
	while (fgets(line, sizeof(line), f)) {
		char *save = NULL;
		char *w = strtok_r(line, " \n", &save);
		if (!w) continue;
		if (!strcmp(w, "proc")) {
			app = atoi(strtok_r(NULL, " \n", &save));
			snprintf(loom, sizeof(loom), "%s", strtok_r(NULL, " \n", &save));
			pid = atoi(strtok_r(NULL, " \n", &save));
		} else if (!strcmp(w, "main_init")) main_init = atoi(strtok_r(NULL, " \n", &save));
		else if (!strcmp(w, "main_fini")) main_fini = atoi(strtok_r(NULL, " \n", &save));
		else if (!strcmp(w, "drop")) drop = atoi(strtok_r(NULL, " \n", &save));
		else if (!strcmp(w, "lockstep")) {
			lockstep = 1;
			ls_rng = strtoull(strtok_r(NULL, " \n", &save), NULL, 10) * 0x9E3779B97F4A7C15ULL + 0x1234567ULL;
		}
		else if (!strcmp(w, "thread")) {
			if (nthreads >= MAXT) return 2;
			struct thr *t = &T[nthreads++];
			t->idx = atoi(strtok_r(NULL, " \n", &save));
			t->ops = calloc(MAXOPS, sizeof(char *));
			t->died = -1;
			int hasb = 0;
			char *o;
			while ((o = strtok_r(NULL, " \n", &save)) != NULL && t->nops < MAXOPS) {
				t->ops[t->nops++] = strdup(o);
				if (o[0] == 'B') hasb++;
			}
			if (hasb > 1) return 2;
			nsecond += hasb;
		}
	}
	fclose(f);
	if (drop && geteuid() == 0) {
		if (setgid(65534) != 0 || setuid(65534) != 0) { perror("drop"); return 2; }
	}
	const char *mi = "none", *mf = "none";
	if (main_init) {
		main_armed = 1;
		if (setjmp(main_jb) == 0) { ovni_proc_init(app, loom, pid); mi = "ok"; }
		else mi = "refused";
		main_armed = 0;
	}
	pthread_barrier_init(&start, NULL, (unsigned) nthreads);
	if (lockstep && nthreads > 0) {
		for (int i = 0; i < nthreads; i++)
			atomic_store(&ls_alive[i], 1);
		atomic_store(&ls_turn, (int) (ls_next() % (unsigned) nthreads));
	}
	for (int i = 0; i < nthreads; i++)
		if (pthread_create(&T[i].th, NULL, body, &T[i]) != 0) { perror("pthread_create"); return 2; }
	for (int i = 0; i < nthreads; i++)
		pthread_join(T[i].th, NULL);
	if (main_fini) {
		main_armed = 1;
		if (setjmp(main_jb) == 0) { ovni_proc_fini(); mf = "ok"; }
		else mf = "refused";
		main_armed = 0;
	}
	for (int i = 0; i < nthreads; i++)
		printf("t %d done=%d died=%d retries=%ld why=%s\n", T[i].idx, T[i].done, T[i].died, T[i].retries,
				T[i].died >= 0 && T[i].why ? T[i].why : "-");
	printf("main init=%s fini=%s\n", mi, mf);
	fflush(stdout);
	return 0;
}
