/* Driver for C01/C02: runs an op script against the REAL libovni.so of the check's build.
 *
 *   usage: rtbuf_drv <scratch-dir>
 *   stdin, one case per line (same syntax as oracle/rtbuf_drv.ml):
 *     R <fx> <cap|D> <clocks c,c,...|-> <ops op;op;...|->
 *       op ::= E<mmccvv>:<hex>,<hex>...  (z = empty chunk) ev={0}; set_mcv; ovni_payload_add per chunk; set_clock(ovni_clock_now()); ovni_ev_emit
 *            | J<mmccvv>:h<hex> | J<mmccvv>:b<seed>.<len>   ...; ovni_ev_jumbo_emit(data)
 *            | F  ovni_flush | X  ovni_thread_free
 *            | P<type>,<value> | O<type>,<value> | S<type>,<value>   ovni_mark_push/pop/set
 *            | T<type>,<flags>    ovni_mark_type (metadata only; not part of the buffer model)
 *   stdout, one line per case:  ok <dir> | abort <dir> | noclock <dir> | crash <status>
 *
 * Each case runs in a forked child (libovni keeps per-process state and die() aborts).
 * The child sets OVNI_TRACEDIR=<dir>/ovni and OVNI_VERIF_EVBUF=<cap>, runs
 * ovni_proc_init(1,"vf",100) ovni_thread_init(100) ovni_add_cpu(0,0) <script> [ovni_proc_fini if freed]
 * and writes <dir>/emit.log: one line per executed op "<index> <first clock index> <next clock index>".
 *
 * clock_gettime is interposed (defined here, so libovni.so binds to it): while armed it
 * returns the next value of the case's clock list; when the list is exhausted the child
 * exits with status 77 ("noclock"). */
#define _GNU_SOURCE
#include <errno.h>
#include <signal.h>
#include <stdint.h>
#include <stdio.h>
#include <stdlib.h>
#include <string.h>
#include <sys/stat.h>
#include <sys/syscall.h>
#include <sys/wait.h>
#include <time.h>
#include <unistd.h>
#include "ovni.h"

static uint64_t *clk;
static size_t nclk, iclk;
static int armed;

int
clock_gettime(clockid_t id, struct timespec *tp)
{
	if (!armed)
		return (int) syscall(SYS_clock_gettime, id, tp);
	if (iclk >= nclk)
		_exit(77);
	uint64_t c = clk[iclk++];
	tp->tv_sec = (time_t) (c / 1000000000ULL);
	tp->tv_nsec = (long) (c % 1000000000ULL);
	return 0;
}

static int
hexval(int c)
{
	if (c >= '0' && c <= '9') return c - '0';
	if (c >= 'a' && c <= 'f') return c - 'a' + 10;
	if (c >= 'A' && c <= 'F') return c - 'A' + 10;
	return -1;
}

static size_t
unhex(const char *h, size_t hl, uint8_t *out)
{
	size_t n = hl / 2;
	for (size_t i = 0; i < n; i++)
		out[i] = (uint8_t) (hexval(h[2 * i]) * 16 + hexval(h[2 * i + 1]));
	return n;
}

static void
set_mcv(struct ovni_ev *ev, const char *h)
{
	char mcv[4] = {0};
	uint8_t b[3];
	unhex(h, 6, b);
	mcv[0] = (char) b[0]; mcv[1] = (char) b[1]; mcv[2] = (char) b[2];
	ovni_ev_set_mcv(ev, mcv);
}

static void
run_op(char *op)
{
	struct ovni_ev ev;
	memset(&ev, 0, sizeof(ev));
	switch (op[0]) {
	case 'E': {
		set_mcv(&ev, op + 1);
		char *p = strchr(op, ':') + 1;
		while (*p) {
			char *q = strchr(p, ',');
			size_t hl = q ? (size_t) (q - p) : strlen(p);
			uint8_t *b = malloc(hl / 2 + 1);
			size_t n = (hl == 1 && p[0] == 'z') ? 0 : unhex(p, hl, b);
			ovni_payload_add(&ev, b, (int) n);
			free(b);
			p += hl;
			if (*p == ',') p++;
		}
		ovni_ev_set_clock(&ev, ovni_clock_now());
		ovni_ev_emit(&ev);
		break;
	}
	case 'J': {
		set_mcv(&ev, op + 1);
		char *p = strchr(op, ':') + 1;
		uint8_t *data;
		size_t n;
		if (*p == 'h') {
			size_t hl = strlen(p + 1);
			data = malloc(hl / 2 + 1);
			n = unhex(p + 1, hl, data);
		} else {
			long seed = strtol(p + 1, &p, 10);
			n = (size_t) strtoull(p + 1, NULL, 10);
			data = malloc(n + 1);
			for (size_t i = 0; i < n; i++)
				data[i] = (uint8_t) ((seed + (long) (i % 251)) & 255);
		}
		ovni_ev_set_clock(&ev, ovni_clock_now());
		ovni_ev_jumbo_emit(&ev, data, (uint32_t) n);
		free(data);
		break;
	}
	case 'F':
		/* RTBUF_ATTR_FLUSH: a program that also persists its metadata while it runs (stream.json only) */
		if (getenv("RTBUF_ATTR_FLUSH"))
			ovni_attr_flush();
		ovni_flush();
		break;
	case 'X':
		ovni_thread_free();
		break;
	case 'P': case 'O': case 'S': case 'T': {
		char *p;
		long type = strtol(op + 1, &p, 10);
		long long value = strtoll(p + 1, NULL, 10);
		if (op[0] == 'P') ovni_mark_push((int32_t) type, (int64_t) value);
		else if (op[0] == 'O') ovni_mark_pop((int32_t) type, (int64_t) value);
		else if (op[0] == 'S') ovni_mark_set((int32_t) type, (int64_t) value);
		else {
			char title[32];
			snprintf(title, sizeof(title), "m%ld", type);
			armed = 0;
			ovni_mark_type((int32_t) type, (long) value, title);
			armed = 1;
		}
		break;
	}
	default:
		_exit(78);
	}
}

static void
child(const char *dir, char *cap, char *clocks, char *ops)
{
	char path[4096];
	snprintf(path, sizeof(path), "%s/ovni", dir);
	setenv("OVNI_TRACEDIR", path, 1);
	unsetenv("OVNI_TMPDIR");
	if (strcmp(cap, "D") == 0) unsetenv("OVNI_VERIF_EVBUF");
	else setenv("OVNI_VERIF_EVBUF", cap, 1);
	snprintf(path, sizeof(path), "%s/stderr.txt", dir);
	freopen(path, "w", stderr);
	snprintf(path, sizeof(path), "%s/emit.log", dir);
	FILE *lg = fopen(path, "w");
	if (!lg) _exit(79);

	/* clocks */
	nclk = 0;
	if (strcmp(clocks, "-") != 0) {
		size_t cnt = 1;
		for (char *p = clocks; *p; p++) if (*p == ',') cnt++;
		clk = malloc(cnt * sizeof(uint64_t));
		char *p = clocks;
		while (*p) {
			clk[nclk++] = strtoull(p, &p, 10);
			if (*p == ',') p++;
		}
	}
	iclk = 0;

	ovni_proc_init(1, "vf", 100);
	ovni_thread_init(100);
	ovni_add_cpu(0, 0);
	armed = 1;
	int freed = 0;
	if (strcmp(ops, "-") != 0) {
		int idx = 0;
		char *p = ops;
		while (*p) {
			char *q = strchr(p, ';');
			if (q) *q = 0;
			size_t before = iclk;
			if (p[0] == 'X') freed = 1;
			fprintf(lg, "%d %zu ", idx, before);
			fflush(lg);
			run_op(p);
			fprintf(lg, "%zu\n", iclk);
			fflush(lg);
			idx++;
			if (!q) break;
			p = q + 1;
		}
	}
	armed = 0;
	fclose(lg);
	if (freed)
		ovni_proc_fini();
	_exit(0);
}

int
main(int argc, char **argv)
{
	if (argc < 2) {
		fprintf(stderr, "usage: rtbuf_drv <scratch-dir>\n");
		return 2;
	}
	char *line = NULL;
	size_t cap_line = 0;
	ssize_t len;
	long k = 0;
	while ((len = getline(&line, &cap_line, stdin)) > 0) {
		if (line[len - 1] == '\n') line[--len] = 0;
		char *save = NULL;
		char *cmd = strtok_r(line, " ", &save);
		char *fx = strtok_r(NULL, " ", &save);
		char *cap = strtok_r(NULL, " ", &save);
		char *clocks = strtok_r(NULL, " ", &save);
		char *ops = strtok_r(NULL, " ", &save);
		if (!cmd || strcmp(cmd, "R") != 0 || !fx || !cap || !clocks || !ops) {
			printf("?\n");
			fflush(stdout);
			continue;
		}
		char dir[4096];
		snprintf(dir, sizeof(dir), "%s/c%ld", argv[1], k++);
		mkdir(dir, 0755);
		fflush(stdout);
		pid_t p = fork();
		if (p == 0)
			child(dir, cap, clocks, ops);
		int st = 0;
		waitpid(p, &st, 0);
		if (WIFEXITED(st) && WEXITSTATUS(st) == 0) printf("ok %s\n", dir);
		else if (WIFEXITED(st) && WEXITSTATUS(st) == 77) printf("noclock %s\n", dir);
		else if (WIFSIGNALED(st) && WTERMSIG(st) == SIGABRT) printf("abort %s\n", dir);
		else printf("crash %d %s\n", st, dir);
		fflush(stdout);
	}
	free(line);
	return 0;
}
